#!/bin/bash
# prepare.sh <scratch dir> [simos]: copy /repo's working tree (and looplab/fsm) into <scratch>, instrument the
# copies for the simrt scheduler, and write <scratch>/go.mod (+go.sum) to be used with -modfile.
# /repo itself is never modified.
set -euo pipefail
S="$1"
REPO="${VERIF_REPO:-/repo}"
V="$(cd "$(dirname "$0")/.." && pwd)"
export GOFLAGS=-mod=mod GOPROXY=off GOSUMDB=off GOTOOLCHAIN=local GONOSUMDB='*' GONOSUMCHECK=1 GOFLAGS="-mod=mod"
export PATH=/opt/veriftools/go1.26.8/bin:$PATH
GO=go
mkdir -p "$S"
rsync -a --delete --exclude .git --exclude '*.test' "$REPO"/ "$S/repo/"
FSM="$($GO env GOMODCACHE)/github.com/looplab/fsm@v1.0.1"
rsync -a --delete "$FSM"/ "$S/fsm/"
chmod -R u+w "$S/fsm"
rm -f "$S"/fsm/*_test.go
# let both copies see the simulator runtime
for d in repo fsm; do
  sed -i -E 's/^go 1\.[0-9]+(\.[0-9]+)?$/go 1.23/; /^toolchain /d' "$S/$d/go.mod"   # range-over-func (rule R6)
  ( cd "$S/$d" && printf '\nrequire simrt v0.0.0\n\nreplace simrt => %s/simrt\n' "$V" >> go.mod )
done
printf '\nreplace github.com/looplab/fsm => %s/fsm\n' "$S" >> "$S/repo/go.mod"
[ -x "$V/bin/simrewrite" ] || ( cd "$V/tools/simrewrite" && $GO build -o "$V/bin/simrewrite" . )
SIMOS=""
( cd "$S/fsm" && "$V/bin/simrewrite" -dir "$S/fsm" -race-points=false . )
( cd "$S/repo" && "$V/bin/simrewrite" -dir "$S/repo" -simos executor/executable,executor/executorcmd \
    ./core/... ./common/... ./configuration/... ./apricot/... ./executor/... )
# module file for building the harnesses in /verif against the instrumented copies
sed -e "s#^replace github.com/AliceO2Group/Control => .*#replace github.com/AliceO2Group/Control => $S/repo#" \
    -e "s#^replace simrt => .*#replace simrt => $V/simrt#" "$V/go.mod" > "$S/go.mod"
printf '\nreplace github.com/looplab/fsm => %s/fsm\n' "$S" >> "$S/go.mod"
cat "$V/go.sum" > "$S/go.sum"
