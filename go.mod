module verif

go 1.26.8

require (
	github.com/AliceO2Group/Control v0.0.0
	github.com/anishathalye/porcupine v1.3.0
	simrt v0.0.0
)

replace simrt => ./simrt

replace github.com/AliceO2Group/Control => /repo

replace github.com/coreos/bbolt => go.etcd.io/bbolt v1.3.6

replace github.com/imdario/mergo => github.com/imdario/mergo v0.3.16

replace github.com/armon/go-metrics => github.com/hashicorp/go-metrics v0.5.3
