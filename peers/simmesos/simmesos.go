// Package simmesos is a model of a Mesos master with its agents, executors and the tasks they
// run, behind the scheduler API seam the core already has (calls.Caller). It is written from the
// Mesos v1 scheduler API documentation; only behaviours a real master/agent/executor exhibits
// are produced. Everything it decides comes from the running simulation's tape.
package simmesos

import (
	"context"
	"encoding/json"
	"errors"
	"fmt"
	"io"
	"sort"
	"strings"
	"time"

	"github.com/AliceO2Group/Control/common"
	"github.com/AliceO2Group/Control/common/controlmode"
	"github.com/AliceO2Group/Control/common/event"
	"github.com/AliceO2Group/Control/core/controlcommands"
	pb "github.com/AliceO2Group/Control/executor/protos"
	mesos "github.com/mesos/mesos-go/api/v1/lib"
	"github.com/mesos/mesos-go/api/v1/lib/encoding"
	"github.com/mesos/mesos-go/api/v1/lib/scheduler"

	"simrt"
	"simrt/simsync"
)

// ---- world ----

type Agent struct {
	ID         string
	Hostname   string
	Attributes map[string]string
	Cpus, Mem  float64
	PortsBegin uint64
	PortsEnd   uint64
	Lost       bool
	usedCpu    float64
	usedMem    float64
	usedPorts  map[uint64]string // port -> task id
	Executors  map[string]bool
}

type Offer struct {
	ID      string
	Agent   *Agent
	Cpus    float64
	Mem     float64
	Ports   [][2]uint64
	SentSeq int
}

// Outcome of one command for one task.
type Outcome int

const (
	OK            Outcome = iota
	ErrorStay             // error reply, task stays in the source state
	ErrorState            // error reply, task goes to ERROR
	Silent                // never answers
	Undeliverable         // the MESSAGE call itself fails
	Dies                  // terminal status instead of a reply
	nOutcomes
)

var OutcomeNames = [...]string{"ok", "error-stay", "error-state", "silent", "undeliverable", "dies"}

// TaskScript is the behaviour the harness gives a task (by role name).
type TaskScript struct {
	StartDelay          time.Duration
	StartFails          bool               // TASK_FAILED instead of TASK_RUNNING
	NeverStarts         bool               // no status at all
	OnCommand           map[string]Outcome // transition event -> outcome (default OK)
	ReplyDelay          time.Duration
	HookExit            int // hook / basic task: exit code reported when triggered
	HookNeverTerminates bool
	HookInvoluntary     bool
	// HookQuick: the hook's child ends before the acknowledgement of the trigger travels back
	HookQuick bool
}

type SimTask struct {
	ID           string
	Name         string
	Info         mesos.TaskInfo
	Cmd          common.TaskCommandInfo
	Agent        *Agent
	ExecID       string
	FwID         string
	EnvID        string
	Class        string
	State        string // O2 state as the executor knows it
	Mesos        mesos.TaskState
	Script       *TaskScript
	Commands     []ReceivedCommand
	Killed       bool
	KillSeq      int
	LaunchSeq    int
	Ports        []uint64
	Cpus, Mem    float64
	terminalSent bool
	// RunningAckAt: when the core acknowledged this task's TASK_RUNNING (-1: not yet)
	RunningAckAt time.Duration
	// launchedWhileHandling: number of the event the core was handling when its ACCEPT came in.
	launchedWhileHandling int
	// RunningQueuedDuringItsRound: the first TASK_RUNNING of this task was already waiting in the
	// event stream when the core came back from handling the offers event that launched it (the
	// core then deals with the update and with the result of the round at the same time).
	RunningQueuedDuringItsRound bool
}

type ReceivedCommand struct {
	Seq       int
	At        time.Duration
	Name      string
	Event     string
	Source    string
	Dest      string
	EnvID     string
	Arguments map[string]string
	Outcome   string
	TimeoutS  float64
}

type CallLog struct {
	Seq    int
	At     time.Duration
	Inc    int
	Type   string
	FwID   string
	Tasks  []string // launched / killed / reconciled task ids
	Offers []string
	Detail string
	Err    string
	// FailedTask: the task a KILL call that failed at the HTTP level was meant for (Tasks stays empty:
	// the master never saw the call)
	FailedTask string
}

type update struct {
	status mesos.TaskStatus
	acked  bool
}

type World struct {
	S  *simrt.Sim
	mu simsync.Mutex

	Agents     []*Agent
	Offers     map[string]*Offer
	Tasks      map[string]*SimTask
	TaskOrder  []string
	Calls      []CallLog
	seq        int
	offerN     int
	fwN        int
	FwID       string
	FwDeadline time.Duration

	sub     *stream
	updates map[string]*update // uuid -> update awaiting ack

	// ScriptFor gives the behaviour of a launched task.
	ScriptFor func(t *SimTask) *TaskScript
	// FailCall lets the harness fail a call at the HTTP level (return an error to the core).
	FailCall func(inc int, typ string) bool
	// Latency of event delivery.
	Latency func(kind string) time.Duration
	// CallLatency of a scheduler call (round trip to the master), by call type.
	CallLatency func(typ string) time.Duration
	// Invalid launches seen by the master (C05 observation point).
	InvalidLaunches []string
	RetryUnacked    time.Duration
	// OfferDelay, if set, gives an extra delay for the offer of one agent in one round (its
	// offer then arrives in a separate OFFERS event): agents are not offered in lock step.
	OfferDelay func(a *Agent) time.Duration
	// HoldTerminalUpdates delays terminal status updates (the master retrying them much later)
	HoldTerminalUpdates time.Duration

	clk streamClock
}

func NewWorld(s *simrt.Sim) *World {
	return &World{S: s, Offers: map[string]*Offer{}, Tasks: map[string]*SimTask{}, updates: map[string]*update{}, RetryUnacked: 10 * time.Second}
}

func (w *World) Seq() int { w.mu.Lock(); defer w.mu.Unlock(); return w.seq }

func (w *World) nextSeq() int { w.seq++; return w.seq }

func (w *World) lat(kind string) time.Duration {
	if w.Latency != nil {
		return w.Latency(kind)
	}
	return 0
}

// ---- subscription stream ----

type stream struct {
	ch     chan *scheduler.Event
	closed bool
	inc    int
	w      *World
}

type response struct{ st *stream }

// Plain fields, no lock: only the goroutine holding the scheduling token touches them, and a
// lock here would add scheduling points to every run.
type streamClock struct {
	tick        int                      // advanced at every emit and every Decode call
	queuedAt    map[*scheduler.Event]int // tick at which an event was queued
	decoded     int                      // number of events the core has taken so far
	behindSince int                      // number of the event the core was handling when it last fell behind (0: it is not behind)
}

func (r *response) Close() error { return nil }
func (r *response) Decode(v encoding.Unmarshaler) error {
	w := r.st.w
	callTick := 0
	if w != nil {
		w.clk.tick++
		callTick = w.clk.tick
	}
	e, ok := simrt.Recv2(r.st.ch)
	if !ok || e == nil {
		return io.EOF
	}
	if w != nil {
		w.clk.decoded++
		q, known := w.clk.queuedAt[e]
		delete(w.clk.queuedAt, e)
		if waiting := known && q < callTick; !waiting {
			w.clk.behindSince = 0 // the core had to wait for this event: it had caught up
		} else {
			if w.clk.behindSince == 0 {
				w.clk.behindSince = w.clk.decoded - 1 // the event it was busy with meanwhile
			}
			// every event since behindSince was already waiting when the core came for it
			if u := e.GetUpdate(); u != nil && u.Status.GetState() == mesos.TASK_RUNNING && w.clk.behindSince > 0 {
				if t := w.Tasks[u.Status.TaskID.Value]; t != nil && t.launchedWhileHandling >= w.clk.behindSince {
					t.RunningQueuedDuringItsRound = true
					simrt.Count("probe.running_update_queued_during_its_offers_round")
				}
			}
		}
	}
	*(v.(*scheduler.Event)) = *e
	return nil
}

type emptyResponse struct{}

func (emptyResponse) Close() error                      { return nil }
func (emptyResponse) Decode(encoding.Unmarshaler) error { return io.EOF }

// emit queues an event on the current subscription (dropped when there is none, as a master does).
func (w *World) emit(e *scheduler.Event) {
	w.mu.Lock()
	st := w.sub
	w.mu.Unlock()
	if st == nil || st.closed {
		return
	}
	if w.clk.queuedAt == nil {
		w.clk.queuedAt = map[*scheduler.Event]int{}
	}
	w.clk.tick++
	w.clk.queuedAt[e] = w.clk.tick
	select {
	case st.ch <- e:
	default:
		panic("simmesos: event queue overflow")
	}
	simrt.Yield()
}

func (w *World) emitAfter(kind string, d time.Duration, e *scheduler.Event) {
	d += w.lat(kind)
	w.S.Go("mesos-"+kind, func() {
		if d > 0 {
			simrt.Sleep(d)
		}
		w.emit(e)
	})
}

// DropSubscription closes the event stream (connection loss); the core re-subscribes.
func (w *World) DropSubscription() {
	w.mu.Lock()
	st := w.sub
	w.sub = nil
	// a master recovers the offers outstanding to a framework that disconnects (accepting one
	// of them later fails as for any unknown offer); fresh ones follow the re-subscription
	for id := range w.Offers {
		delete(w.Offers, id)
	}
	w.mu.Unlock()
	if st != nil && !st.closed {
		st.closed = true
		close(st.ch)
	}
}

// ---- calls.Caller ----

type caller struct {
	w   *World
	inc int
}

// Caller returns the scheduler API endpoint for one incarnation of the core.
func (w *World) Caller(inc int) *caller { return &caller{w: w, inc: inc} }

func (c *caller) Call(ctx context.Context, call *scheduler.Call) (mesos.Response, error) {
	w := c.w
	simrt.Yield()
	if w.S.IsDead(c.inc) {
		select {} // a dead process makes no calls
	}
	typ := call.GetType().String()
	if w.CallLatency != nil && typ != "SUBSCRIBE" {
		if d := w.CallLatency(typ); d > 0 {
			// the HTTP round trip to the master: the master has the call (and acts on it, forwards a
			// MESSAGE, ...) half way through, the caller gets its answer at the end
			simrt.Sleep(d / 2)
			defer simrt.Sleep(d - d/2)
		}
	}
	lg := CallLog{Inc: c.inc, Type: typ, FwID: call.GetFrameworkID().GetValue()}
	fail := w.FailCall != nil && typ != "SUBSCRIBE" && w.FailCall(c.inc, typ)
	defer func() {
		w.mu.Lock()
		lg.Seq = w.nextSeq()
		lg.At = w.S.Now()
		w.Calls = append(w.Calls, lg)
		w.mu.Unlock()
	}()
	if fail {
		lg.Err = "http error (injected)"
		if call.GetType() == scheduler.Call_KILL {
			lg.FailedTask = call.GetKill().GetTaskID().Value
		}
		simrt.Count("fault.mesos_call_failed." + typ)
		return nil, errors.New("mesos: 503 service unavailable (simulated)")
	}
	switch call.GetType() {
	case scheduler.Call_SUBSCRIBE:
		return w.subscribe(c.inc, call, &lg)
	case scheduler.Call_ACCEPT:
		w.accept(call, &lg)
	case scheduler.Call_DECLINE:
		w.mu.Lock()
		for _, id := range call.GetDecline().GetOfferIDs() {
			lg.Offers = append(lg.Offers, id.Value)
			delete(w.Offers, id.Value)
		}
		w.mu.Unlock()
	case scheduler.Call_REVIVE:
		w.SendOffers(20 * time.Millisecond)
	case scheduler.Call_KILL:
		w.kill(call.GetKill().GetTaskID().Value, &lg)
	case scheduler.Call_MESSAGE:
		if err := w.message(call.GetMessage(), &lg); err != nil {
			lg.Err = err.Error()
			return nil, err
		}
	case scheduler.Call_ACKNOWLEDGE:
		a := call.GetAcknowledge()
		w.mu.Lock()
		if u := w.updates[string(a.GetUUID())]; u != nil {
			u.acked = true
			delete(w.updates, string(a.GetUUID()))
			if t := w.Tasks[a.GetTaskID().Value]; t != nil && u.status.GetState() == mesos.TASK_RUNNING && t.RunningAckAt < 0 {
				t.RunningAckAt = w.S.Now()
			}
		}
		lg.Tasks = []string{a.GetTaskID().Value}
		w.mu.Unlock()
	case scheduler.Call_RECONCILE:
		w.reconcile(call, &lg)
	}
	return emptyResponse{}, nil
}

func (w *World) subscribe(inc int, call *scheduler.Call, lg *CallLog) (mesos.Response, error) {
	w.mu.Lock()
	reqID := call.GetSubscribe().GetFrameworkInfo().GetID().GetValue()
	if reqID == "" {
		reqID = call.GetFrameworkID().GetValue()
	}
	lg.Detail = "requested-framework-id=" + reqID
	old := w.sub
	if reqID != "" && reqID == w.FwID && w.S.Now() <= w.FwDeadline+time.Hour*1000 {
		// failover / reconnect under the same identity: tasks are kept
	} else {
		w.fwN++
		w.FwID = fmt.Sprintf("fw-%04d", w.fwN)
	}
	lg.FwID = w.FwID
	st := &stream{ch: make(chan *scheduler.Event, 100000), inc: inc, w: w}
	w.sub = st
	fw := w.FwID
	w.mu.Unlock()
	if old != nil && !old.closed {
		old.closed = true
		close(old.ch)
	}
	hb := 15.0
	st.ch <- &scheduler.Event{Type: scheduler.Event_SUBSCRIBED, Subscribed: &scheduler.Event_Subscribed{FrameworkID: &mesos.FrameworkID{Value: fw}, HeartbeatIntervalSeconds: &hb}}
	// a master sends offers to a newly subscribed framework
	w.SendOffers(50 * time.Millisecond)
	return &response{st: st}, nil
}

// ---- offers ----

// SendOffers makes one offer per agent with all its currently free resources (unless one is
// already outstanding for that agent).
func (w *World) SendOffers(after time.Duration) {
	groups := map[time.Duration][]*Agent{}
	var delays []time.Duration
	w.mu.Lock()
	agents := append([]*Agent(nil), w.Agents...)
	w.mu.Unlock()
	for _, a := range agents {
		d := time.Duration(0)
		if w.OfferDelay != nil {
			d = w.OfferDelay(a)
		}
		if _, ok := groups[d]; !ok {
			delays = append(delays, d)
		}
		groups[d] = append(groups[d], a)
	}
	sort.Slice(delays, func(i, j int) bool { return delays[i] < delays[j] })
	for _, d := range delays {
		w.sendOffersFor(after+d, groups[d])
	}
}

func (w *World) sendOffersFor(after time.Duration, agents []*Agent) {
	w.S.Go("mesos-offers", func() {
		if d := after + w.lat("offers"); d > 0 {
			simrt.Sleep(d)
		}
		w.mu.Lock()
		if w.sub == nil {
			// a master makes no offers to a framework that is not connected
			w.mu.Unlock()
			return
		}
		var list []mesos.Offer
		for _, a := range agents {
			if a.Lost {
				continue
			}
			busy := false
			for _, o := range w.Offers {
				if o.Agent == a {
					busy = true
				}
			}
			if busy {
				continue
			}
			w.offerN++
			o := &Offer{ID: fmt.Sprintf("offer-%04d", w.offerN), Agent: a, Cpus: a.Cpus - a.usedCpu, Mem: a.Mem - a.usedMem, SentSeq: w.nextSeq()}
			// free port ranges
			var start uint64
			in := false
			for p := a.PortsBegin; p <= a.PortsEnd+1; p++ {
				free := p <= a.PortsEnd && a.usedPorts[p] == ""
				if free && !in {
					start, in = p, true
				}
				if !free && in {
					o.Ports = append(o.Ports, [2]uint64{start, p - 1})
					in = false
				}
			}
			w.Offers[o.ID] = o
			list = append(list, w.offerProto(o))
		}
		w.mu.Unlock()
		if len(list) == 0 {
			return
		}
		w.emit(&scheduler.Event{Type: scheduler.Event_OFFERS, Offers: &scheduler.Event_Offers{Offers: list}})
	})
}

func scalar(name string, v float64) mesos.Resource {
	return mesos.Resource{Name: name, Type: mesos.SCALAR.Enum(), Scalar: &mesos.Value_Scalar{Value: v}}
}

func (w *World) offerProto(o *Offer) mesos.Offer {
	a := o.Agent
	res := []mesos.Resource{scalar("cpus", o.Cpus), scalar("mem", o.Mem)}
	if len(o.Ports) > 0 {
		r := mesos.Resource{Name: "ports", Type: mesos.RANGES.Enum(), Ranges: &mesos.Value_Ranges{}}
		for _, p := range o.Ports {
			r.Ranges.Range = append(r.Ranges.Range, mesos.Value_Range{Begin: p[0], End: p[1]})
		}
		res = append(res, r)
	}
	var attrs []mesos.Attribute
	var keys []string
	for k := range a.Attributes {
		keys = append(keys, k)
	}
	sort.Strings(keys)
	for _, k := range keys {
		attrs = append(attrs, mesos.Attribute{Name: k, Type: mesos.TEXT, Text: &mesos.Value_Text{Value: a.Attributes[k]}})
	}
	var execs []mesos.ExecutorID
	var eks []string
	for e := range a.Executors {
		eks = append(eks, e)
	}
	sort.Strings(eks)
	for _, e := range eks {
		execs = append(execs, mesos.ExecutorID{Value: e})
	}
	return mesos.Offer{ID: mesos.OfferID{Value: o.ID}, FrameworkID: mesos.FrameworkID{Value: w.FwID}, AgentID: mesos.AgentID{Value: a.ID}, Hostname: a.Hostname, Resources: res, Attributes: attrs, ExecutorIDs: execs}
}

// ---- accept / launch ----

func resScalar(rs []mesos.Resource, name string) float64 {
	v := 0.0
	for _, r := range rs {
		if r.GetName() == name && r.GetScalar() != nil {
			v += r.GetScalar().GetValue()
		}
	}
	return v
}

func resPorts(rs []mesos.Resource) []uint64 {
	var out []uint64
	for _, r := range rs {
		if r.GetName() == "ports" {
			for _, rg := range r.GetRanges().GetRange() {
				for p := rg.Begin; p <= rg.End; p++ {
					out = append(out, p)
				}
			}
		}
	}
	return out
}

func (w *World) accept(call *scheduler.Call, lg *CallLog) {
	acc := call.GetAccept()
	w.mu.Lock()
	var offers []*Offer
	for _, id := range acc.GetOfferIDs() {
		lg.Offers = append(lg.Offers, id.Value)
		if o := w.Offers[id.Value]; o != nil {
			offers = append(offers, o)
			delete(w.Offers, id.Value)
		}
	}
	type launch struct {
		t   *SimTask
		err string
	}
	var launches []launch
	// the master's accounting for one ACCEPT: resources of all accepted offers on the agent
	var cpu, mem float64
	free := map[uint64]bool{}
	var agent *Agent
	for _, o := range offers {
		agent = o.Agent
		cpu += o.Cpus
		mem += o.Mem
		for _, p := range o.Ports {
			for x := p[0]; x <= p[1]; x++ {
				free[x] = true
			}
		}
	}
	newExecs := map[string]bool{}
	for _, op := range acc.GetOperations() {
		if op.GetType() != mesos.Offer_Operation_LAUNCH {
			continue
		}
		for _, ti := range op.GetLaunch().GetTaskInfos() {
			t := &SimTask{ID: ti.TaskID.Value, Name: ti.Name, Info: ti, FwID: w.FwID, State: "STANDBY", Mesos: mesos.TASK_STAGING, LaunchSeq: w.seq + 1, RunningAckAt: -1, launchedWhileHandling: w.clk.decoded}
			_ = json.Unmarshal(ti.Data, &t.Cmd)
			for _, l := range ti.GetLabels().GetLabels() {
				if l.Key == "environmentId" && l.Value != nil {
					t.EnvID = *l.Value
				}
			}
			if i := strings.Index(ti.Name, "#"); i > 0 {
				t.Class = ti.Name[:i]
			}
			lg.Tasks = append(lg.Tasks, t.ID)
			l := launch{t: t}
			switch {
			case len(offers) == 0:
				l.err = "offer no longer valid"
			case ti.AgentID.Value != agent.ID:
				l.err = "task launched on an agent other than the offer's"
			default:
				t.Agent = agent
				t.ExecID = ti.GetExecutor().GetExecutorID().Value
				t.Cpus, t.Mem = resScalar(ti.Resources, "cpus"), resScalar(ti.Resources, "mem")
				// executor resources are charged once, when a new executor is started
				if !agent.Executors[t.ExecID] && !newExecs[t.ExecID] {
					cpuE, memE := resScalar(ti.GetExecutor().GetResources(), "cpus"), resScalar(ti.GetExecutor().GetResources(), "mem")
					t.Cpus += cpuE
					t.Mem += memE
					newExecs[t.ExecID] = true
				}
				t.Ports = resPorts(ti.Resources)
				if t.Cpus > cpu+1e-9 || t.Mem > mem+1e-9 {
					l.err = fmt.Sprintf("task uses more resources (cpus %.3f mem %.1f) than offered/left (cpus %.3f mem %.1f)", t.Cpus, t.Mem, cpu, mem)
				}
				for _, p := range t.Ports {
					if !free[p] {
						l.err = fmt.Sprintf("port %d is not (or no longer) in the offer", p)
					}
				}
				if l.err == "" {
					cpu -= t.Cpus
					mem -= t.Mem
					for _, p := range t.Ports {
						delete(free, p)
					}
				}
			}
			launches = append(launches, l)
		}
	}
	for _, l := range launches {
		t := l.t
		w.Tasks[t.ID] = t
		w.TaskOrder = append(w.TaskOrder, t.ID)
		if l.err != "" {
			w.InvalidLaunches = append(w.InvalidLaunches, fmt.Sprintf("task %s (%s) on %s: %s", t.ID, t.Name, lg.Offers, l.err))
			continue
		}
		a := t.Agent
		a.usedCpu += t.Cpus
		a.usedMem += t.Mem
		if a.usedPorts == nil {
			a.usedPorts = map[uint64]string{}
		}
		for _, p := range t.Ports {
			a.usedPorts[p] = t.ID
		}
		if a.Executors == nil {
			a.Executors = map[string]bool{}
		}
		a.Executors[t.ExecID] = true
	}
	w.mu.Unlock()
	for _, l := range launches {
		t := l.t
		if l.err != "" {
			w.statusUpdate(t, mesos.TASK_ERROR, mesos.REASON_TASK_INVALID.Enum(), l.err, 10*time.Millisecond)
			continue
		}
		sc := &TaskScript{}
		if w.ScriptFor != nil {
			if s := w.ScriptFor(t); s != nil {
				sc = s
			}
		}
		t.Script = sc
		switch {
		case sc.NeverStarts:
			simrt.Count("fault.task_never_starts")
		case sc.StartFails:
			simrt.Count("fault.task_start_fails")
			w.terminate(t, mesos.TASK_FAILED, "process exited before becoming ready", sc.StartDelay+30*time.Millisecond)
		default:
			t := t
			w.S.Go("mesos-task-start", func() {
				simrt.Sleep(sc.StartDelay + 30*time.Millisecond + w.lat("status"))
				w.mu.Lock()
				ok := t.Mesos == mesos.TASK_STAGING && !t.Killed
				if ok {
					t.Mesos = mesos.TASK_RUNNING
				}
				w.mu.Unlock()
				if ok {
					w.statusUpdate(t, mesos.TASK_RUNNING, nil, "", 0)
				}
			})
		}
	}
}

// ---- status updates ----

var uuidN int

func (w *World) statusUpdate(t *SimTask, st mesos.TaskState, reason *mesos.TaskStatus_Reason, msg string, after time.Duration) {
	w.mu.Lock()
	uuidN++
	uuid := []byte(fmt.Sprintf("uuid-%08d", uuidN))
	s := mesos.TaskStatus{TaskID: mesos.TaskID{Value: t.ID}, State: &st, UUID: uuid, Reason: reason}
	if msg != "" {
		s.Message = &msg
	}
	if t.Agent != nil {
		s.AgentID = &mesos.AgentID{Value: t.Agent.ID}
	}
	if t.ExecID != "" {
		s.ExecutorID = &mesos.ExecutorID{Value: t.ExecID}
	}
	src := mesos.SOURCE_EXECUTOR
	s.Source = &src
	envID := t.EnvID
	s.Labels = &mesos.Labels{Labels: []mesos.Label{{Key: "environmentId", Value: &envID}}}
	u := &update{status: s}
	w.updates[string(uuid)] = u
	w.mu.Unlock()
	w.S.Go("mesos-update", func() {
		if d := after + w.lat("status"); d > 0 {
			simrt.Sleep(d)
		}
		for i := 0; i < 5; i++ {
			w.emit(&scheduler.Event{Type: scheduler.Event_UPDATE, Update: &scheduler.Event_Update{Status: u.status}})
			// unacknowledged updates are retried (possible duplicates)
			simrt.Sleep(w.RetryUnacked)
			w.mu.Lock()
			acked := u.acked
			w.mu.Unlock()
			if acked {
				return
			}
			simrt.Count("fault.status_update_resent")
		}
	})
}

func terminal(st mesos.TaskState) bool {
	switch st {
	case mesos.TASK_FINISHED, mesos.TASK_FAILED, mesos.TASK_KILLED, mesos.TASK_LOST, mesos.TASK_ERROR, mesos.TASK_DROPPED, mesos.TASK_GONE:
		return true
	}
	return false
}

// terminate ends a task with a terminal status (once) and frees its resources.
func (w *World) terminate(t *SimTask, st mesos.TaskState, msg string, after time.Duration) {
	w.mu.Lock()
	if t.terminalSent {
		w.mu.Unlock()
		return
	}
	t.terminalSent = true
	w.mu.Unlock()
	after += w.HoldTerminalUpdates
	w.S.Go("mesos-terminate", func() {
		if after > 0 {
			simrt.Sleep(after)
		}
		w.mu.Lock()
		t.Mesos = st
		if a := t.Agent; a != nil {
			a.usedCpu -= t.Cpus
			a.usedMem -= t.Mem
			for _, p := range t.Ports {
				delete(a.usedPorts, p)
			}
		}
		w.mu.Unlock()
		w.statusUpdate(t, st, nil, msg, 0)
	})
}

// Alive reports whether the master still holds the task as non-terminal.
func (t *SimTask) Alive() bool { return !terminal(t.Mesos) }

func (w *World) kill(id string, lg *CallLog) {
	w.mu.Lock()
	lg.Tasks = []string{id}
	t := w.Tasks[id]
	if t == nil || terminal(t.Mesos) {
		// the master does not know the task (any more): it answers with a TASK_LOST update
		// (reason RECONCILIATION, source MASTER), as Master::kill does for unknown tasks
		agentID := ""
		if t != nil && t.Agent != nil {
			agentID = t.Agent.ID
		}
		w.mu.Unlock()
		st, r, src := mesos.TASK_LOST, mesos.REASON_RECONCILIATION, mesos.SOURCE_MASTER
		s := mesos.TaskStatus{TaskID: mesos.TaskID{Value: id}, State: &st, Reason: &r, Source: &src, UUID: []byte{}}
		if agentID != "" {
			s.AgentID = &mesos.AgentID{Value: agentID}
		}
		w.emitAfter("status", 20*time.Millisecond, &scheduler.Event{Type: scheduler.Event_UPDATE, Update: &scheduler.Event_Update{Status: s}})
		return
	}
	t.Killed = true
	t.KillSeq = w.seq + 1
	w.mu.Unlock()
	w.terminate(t, mesos.TASK_KILLED, "killed on request", 50*time.Millisecond+w.lat("kill"))
}

func (w *World) reconcile(call *scheduler.Call, lg *CallLog) {
	w.mu.Lock()
	var ts []*SimTask
	for _, id := range w.TaskOrder {
		t := w.Tasks[id]
		if t.FwID == w.FwID && !terminal(t.Mesos) && t.Agent != nil {
			ts = append(ts, t)
			lg.Tasks = append(lg.Tasks, id)
		}
	}
	w.mu.Unlock()
	r := mesos.REASON_RECONCILIATION
	for _, t := range ts {
		st := t.Mesos
		uu := []byte{} // reconciliation updates carry no uuid and are not acknowledged
		s := mesos.TaskStatus{TaskID: mesos.TaskID{Value: t.ID}, State: &st, Reason: &r, AgentID: &mesos.AgentID{Value: t.Agent.ID}, UUID: uu}
		src := mesos.SOURCE_MASTER
		s.Source = &src
		w.emitAfter("status", 20*time.Millisecond, &scheduler.Event{Type: scheduler.Event_UPDATE, Update: &scheduler.Event_Update{Status: s}})
	}
}

// ---- messages: commands to executors and their answers ----

func (w *World) sendToCore(t *SimTask, payload any, after time.Duration) {
	b, _ := json.Marshal(payload)
	w.emitAfter("message", after, &scheduler.Event{Type: scheduler.Event_MESSAGE, Message: &scheduler.Event_Message{AgentID: mesos.AgentID{Value: t.Agent.ID}, ExecutorID: mesos.ExecutorID{Value: t.ExecID}, Data: b}})
}

func (w *World) message(m *scheduler.Call_Message, lg *CallLog) error {
	var base struct {
		Name       string                               `json:"name"`
		TargetList []controlcommands.MesosCommandTarget `json:"targetList"`
		TimeoutNs  float64                              `json:"timeout"`
	}
	if err := json.Unmarshal(m.GetData(), &base); err != nil {
		return nil
	}
	lg.Detail = base.Name
	w.mu.Lock()
	var t *SimTask
	if len(base.TargetList) == 1 {
		t = w.Tasks[base.TargetList[0].TaskId.Value]
	}
	w.mu.Unlock()
	if t == nil || t.Agent == nil || t.Agent.Lost || terminal(t.Mesos) {
		return nil // best effort: the master drops messages it cannot route
	}
	lg.Tasks = []string{t.ID}
	sc := t.Script
	if sc == nil {
		sc = &TaskScript{}
	}
	rc := ReceivedCommand{At: w.S.Now(), Name: base.Name, TimeoutS: base.TimeoutNs / 1e9}
	switch base.Name {
	case "MesosCommand_Transition":
		var cmd controlcommands.MesosCommand_Transition
		_ = json.Unmarshal(m.GetData(), &cmd)
		rc.Event, rc.Source, rc.Dest, rc.EnvID, rc.Arguments = cmd.Event, cmd.Source, cmd.Destination, cmd.EnvironmentId.String(), cmd.Arguments
		out := sc.OnCommand[cmd.Event]
		rc.Outcome = OutcomeNames[out]
		if out == Undeliverable {
			simrt.Count("fault.command_undeliverable")
			w.mu.Lock()
			rc.Seq = w.nextSeq()
			t.Commands = append(t.Commands, rc)
			w.mu.Unlock()
			return errors.New("mesos: message could not be forwarded (simulated)")
		}
		w.mu.Lock()
		rc.Seq = w.nextSeq()
		t.Commands = append(t.Commands, rc)
		w.mu.Unlock()
		if out != OK {
			simrt.Count("fault.command_" + OutcomeNames[out])
		}
		reply := func(errS, state string) {
			var e error
			if errS != "" {
				e = errors.New(errS)
			}
			res := controlcommands.NewMesosCommandResponse_Transition(&cmd, e, state, t.ID)
			w.sendToCore(t, res, sc.ReplyDelay+10*time.Millisecond)
		}
		switch out {
		case OK:
			if t.State != cmd.Source {
				reply(fmt.Sprintf("task is in %s, cannot %s from %s", t.State, cmd.Event, cmd.Source), t.State)
				break
			}
			t.State = cmd.Destination
			reply("", t.State)
		case ErrorStay:
			reply(fmt.Sprintf("transition %s failed, task stays in %s", cmd.Event, t.State), t.State)
		case ErrorState:
			t.State = "ERROR"
			reply(fmt.Sprintf("transition %s failed, task went to ERROR", cmd.Event), "ERROR")
		case Silent:
		case Dies:
			w.terminate(t, mesos.TASK_FAILED, "process died during "+cmd.Event, 20*time.Millisecond)
		}
	case "MesosCommand_TriggerHook":
		var cmd controlcommands.MesosCommand_TriggerHook
		_ = json.Unmarshal(m.GetData(), &cmd)
		rc.Event = "TRIGGER"
		rc.EnvID = cmd.EnvironmentId.String()
		w.mu.Lock()
		rc.Seq = w.nextSeq()
		t.Commands = append(t.Commands, rc)
		w.mu.Unlock()
		res := controlcommands.NewMesosCommandResponse_TriggerHook(&cmd, nil, t.ID)
		if sc.HookQuick && !sc.HookNeverTerminates {
			// a very short hook: BASIC_TASK_TERMINATED overtakes the acknowledgement of the trigger
			w.BasicTaskTerminated(t, sc.HookExit, !sc.HookInvoluntary)
			w.sendToCore(t, res, 15*time.Millisecond)
			return nil
		}
		w.sendToCore(t, res, 10*time.Millisecond)
		if !sc.HookNeverTerminates {
			w.S.Go("mesos-hook-exit", func() {
				simrt.Sleep(sc.ReplyDelay + 40*time.Millisecond)
				w.BasicTaskTerminated(t, sc.HookExit, !sc.HookInvoluntary)
			})
		}
	}
	return nil
}

// BasicTaskTerminated: the child of a basic/hook task exited; the executor reports it as a
// device event.
func (w *World) BasicTaskTerminated(t *SimTask, exit int, voluntary bool) {
	final := mesos.TASK_FINISHED
	if exit != 0 {
		final = mesos.TASK_FAILED
	}
	ev := event.NewDeviceEvent(event.DeviceEventOrigin{AgentId: mesos.AgentID{Value: t.Agent.ID}, ExecutorId: mesos.ExecutorID{Value: t.ExecID}, TaskId: mesos.TaskID{Value: t.ID}}, pb.DeviceEventType_BASIC_TASK_TERMINATED)
	bt := ev.(*event.BasicTaskTerminated)
	bt.ExitCode, bt.VoluntaryTermination, bt.FinalMesosState = exit, voluntary, final
	bt.SetLabels(map[string]string{"environmentId": t.EnvID})
	w.sendToCore(t, bt, 0)
	// The real executor reports the end of a hook's / basic task's child with this device event
	// only (executor/executable/basictaskcommon.go); the Mesos task itself stays RUNNING until it
	// is killed, which is when TASK_FINISHED is reported.
}

// DeviceEvent makes the executor of t announce END_OF_STREAM / TASK_INTERNAL_ERROR.
func (w *World) DeviceEvent(t *SimTask, typ pb.DeviceEventType) {
	ev := event.NewDeviceEvent(event.DeviceEventOrigin{AgentId: mesos.AgentID{Value: t.Agent.ID}, ExecutorId: mesos.ExecutorID{Value: t.ExecID}, TaskId: mesos.TaskID{Value: t.ID}}, typ)
	ev.SetLabels(map[string]string{"environmentId": t.EnvID})
	w.sendToCore(t, ev, 0)
}

// ---- spontaneous failures (C03) ----

// FailTask: the task fails on its own.
func (w *World) FailTask(t *SimTask, st mesos.TaskState) {
	w.terminate(t, st, "failed on its own", 0)
}

// ExecutorLost: the executor of t dies: FAILURE event plus TASK_LOST/FAILED for its tasks.
func (w *World) ExecutorLost(execID string) {
	w.mu.Lock()
	var ts []*SimTask
	var agent *Agent
	for _, id := range w.TaskOrder {
		t := w.Tasks[id]
		if t.ExecID == execID && !terminal(t.Mesos) {
			ts = append(ts, t)
			agent = t.Agent
		}
	}
	if agent != nil {
		delete(agent.Executors, execID)
	}
	w.mu.Unlock()
	if agent == nil {
		return
	}
	st := int32(137)
	w.emit(&scheduler.Event{Type: scheduler.Event_FAILURE, Failure: &scheduler.Event_Failure{AgentID: &mesos.AgentID{Value: agent.ID}, ExecutorID: &mesos.ExecutorID{Value: execID}, Status: &st}})
	for _, t := range ts {
		w.terminate(t, mesos.TASK_FAILED, "executor terminated", 10*time.Millisecond)
	}
}

// AgentLost: the agent is removed: FAILURE event, TASK_LOST for its tasks, offers rescinded.
func (w *World) AgentLost(a *Agent) {
	w.mu.Lock()
	a.Lost = true
	var ts []*SimTask
	for _, id := range w.TaskOrder {
		t := w.Tasks[id]
		if t.Agent == a && !terminal(t.Mesos) {
			ts = append(ts, t)
		}
	}
	var resc []string
	for id, o := range w.Offers {
		if o.Agent == a {
			resc = append(resc, id)
			delete(w.Offers, id)
		}
	}
	w.mu.Unlock()
	sort.Strings(resc)
	for _, id := range resc {
		w.emit(&scheduler.Event{Type: scheduler.Event_RESCIND, Rescind: &scheduler.Event_Rescind{OfferID: mesos.OfferID{Value: id}}})
	}
	w.emit(&scheduler.Event{Type: scheduler.Event_FAILURE, Failure: &scheduler.Event_Failure{AgentID: &mesos.AgentID{Value: a.ID}}})
	for _, t := range ts {
		w.terminate(t, mesos.TASK_LOST, "agent removed", 10*time.Millisecond)
	}
}

// helpers for oracles

func (w *World) AliveTasks() []*SimTask {
	w.mu.Lock()
	defer w.mu.Unlock()
	var out []*SimTask
	for _, id := range w.TaskOrder {
		if t := w.Tasks[id]; !terminal(t.Mesos) && t.Agent != nil {
			out = append(out, t)
		}
	}
	return out
}

// AllTasks returns every task ever launched (no lock, hence no scheduling point: for oracles that
// run while they hold the scheduling token).
func (w *World) AllTasks() []*SimTask {
	var out []*SimTask
	for _, id := range w.TaskOrder {
		out = append(out, w.Tasks[id])
	}
	return out
}

func (w *World) Task(id string) *SimTask { w.mu.Lock(); defer w.mu.Unlock(); return w.Tasks[id] }

func (w *World) CallsOfType(typ string) []CallLog {
	w.mu.Lock()
	defer w.mu.Unlock()
	var out []CallLog
	for _, c := range w.Calls {
		if c.Type == typ {
			out = append(out, c)
		}
	}
	return out
}

var _ = controlmode.BASIC
