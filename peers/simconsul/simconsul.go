// Package simconsul is an in-memory Consul KV store served as an http.RoundTripper, so that
// the real github.com/hashicorp/consul/api client (and everything above it) runs unmodified
// inside the simulation. Every request is two scheduling points (before it is applied, before
// the response is returned); faults are drawn from the fault stream of the running simulation.
package simconsul

import (
	"bytes"
	"encoding/base64"
	"encoding/json"
	"errors"
	"fmt"
	"io"
	"net/http"
	"sort"
	"strconv"
	"strings"
	"time"

	"simrt"
	"simrt/simsync"
)

type entry struct {
	Value       []byte
	CreateIndex uint64
	ModifyIndex uint64
	// history of (index, value) for stale reads
	hist []histEntry
}

type histEntry struct {
	idx uint64
	val []byte
	del bool
}

// Request log entry (observation point for oracles).
type ReqLog struct {
	Seq     int
	Client  string
	Method  string
	Key     string
	Query   string
	Body    string
	Status  int
	Resp    string
	Fault   string
	Applied bool
	At      time.Duration
}

// FaultPolicy decides the fault for one request; it returns one of the Fault* constants.
type FaultPolicy func(client, method, key, query string) string

const (
	FaultNone       = ""
	Fault500        = "http-500"
	FaultConnBefore = "conn-error-before-apply"
	FaultLostAfter  = "response-lost-after-apply"
	FaultSlow       = "slow"
	FaultStale      = "stale-read"
	FaultDieBefore  = "caller-dies-before-apply"
	FaultDieAfter   = "caller-dies-after-apply"
)

type Store struct {
	mu     simsync.Mutex
	kv     map[string]*entry
	index  uint64
	Log    []ReqLog
	seq    int
	Policy FaultPolicy
	// SlowBy is the delay of a "slow" request.
	SlowBy time.Duration
	// Latency, if set, is slept before every request is applied.
	Latency func() time.Duration
}

func NewStore() *Store {
	return &Store{kv: map[string]*entry{}, index: 10, SlowBy: 2 * time.Second}
}

// Direct access for harnesses (no faults, no scheduling points besides the lock).

func (s *Store) Set(key, value string) {
	s.mu.Lock()
	defer s.mu.Unlock()
	s.put(key, []byte(value))
}

func (s *Store) Get(key string) (string, uint64, bool) {
	s.mu.Lock()
	defer s.mu.Unlock()
	e, ok := s.kv[key]
	if !ok {
		return "", 0, false
	}
	return string(e.Value), e.ModifyIndex, true
}

func (s *Store) Keys() []string {
	s.mu.Lock()
	defer s.mu.Unlock()
	var ks []string
	for k := range s.kv {
		ks = append(ks, k)
	}
	sort.Strings(ks)
	return ks
}

func (s *Store) put(key string, val []byte) {
	s.index++
	e, ok := s.kv[key]
	if !ok {
		e = &entry{CreateIndex: s.index}
		s.kv[key] = e
	}
	e.Value = append([]byte(nil), val...)
	e.ModifyIndex = s.index
	e.hist = append(e.hist, histEntry{idx: s.index, val: e.Value})
}

// Transport returns a RoundTripper for one client (the name appears in the request log).
func (s *Store) Transport(client string) http.RoundTripper { return &transport{s: s, client: client} }

// HTTPClient returns an *http.Client over Transport(client).
func (s *Store) HTTPClient(client string) *http.Client {
	return &http.Client{Transport: s.Transport(client)}
}

type transport struct {
	s      *Store
	client string
}

type kvPair struct {
	LockIndex   uint64
	Key         string
	Flags       uint64
	Value       string
	CreateIndex uint64
	ModifyIndex uint64
}

func (t *transport) RoundTrip(req *http.Request) (*http.Response, error) {
	s := t.s
	simrt.Yield() // request on the wire
	path := req.URL.Path
	if !strings.HasPrefix(path, "/v1/kv/") && path != "/v1/kv" {
		return respond(req, 404, "", 0), nil
	}
	key := strings.TrimPrefix(strings.TrimPrefix(path, "/v1/kv"), "/")
	q := req.URL.Query()
	var body []byte
	if req.Body != nil {
		body, _ = io.ReadAll(req.Body)
		req.Body.Close()
	}
	fault := FaultNone
	if s.Policy != nil {
		fault = s.Policy(t.client, req.Method, key, req.URL.RawQuery)
	}
	if fault != FaultNone {
		simrt.Count("fault.consul." + fault)
	}
	s.mu.Lock()
	s.seq++
	lg := ReqLog{Seq: s.seq, Client: t.client, Method: req.Method, Key: key, Query: req.URL.RawQuery, Body: string(body), Fault: fault}
	s.mu.Unlock()
	finish := func(status int, resp string, applied bool) {
		s.mu.Lock()
		lg.Status, lg.Resp, lg.Applied = status, resp, applied
		if sim := simrt.Active(); sim != nil {
			lg.At = sim.Now()
		}
		s.Log = append(s.Log, lg)
		s.mu.Unlock()
	}
	switch fault {
	case FaultConnBefore:
		finish(0, "connection refused", false)
		return nil, errors.New("dial tcp: connection refused (simulated)")
	case Fault500:
		finish(500, "rpc error: No cluster leader", false)
		return respond(req, 500, "rpc error making call: No cluster leader", 0), nil
	case FaultDieBefore:
		finish(0, "caller died", false)
		select {}
	case FaultSlow:
		simrt.Sleep(s.SlowBy)
	}
	if s.Latency != nil {
		if d := s.Latency(); d > 0 {
			simrt.Sleep(d)
		}
	}
	// ---- apply ----
	s.mu.Lock()
	status, resp := 200, ""
	idx := s.index
	switch req.Method {
	case http.MethodGet:
		_, recurse := q["recurse"]
		_, keysOnly := q["keys"]
		switch {
		case keysOnly:
			var ks []string
			sep := q.Get("separator")
			seen := map[string]bool{}
			for k := range s.kv {
				if strings.HasPrefix(k, key) {
					kk := k
					if sep != "" {
						if i := strings.Index(k[len(key):], sep); i >= 0 {
							kk = k[:len(key)+i+len(sep)]
						}
					}
					if !seen[kk] {
						seen[kk] = true
						ks = append(ks, kk)
					}
				}
			}
			sort.Strings(ks)
			if len(ks) == 0 {
				status = 404
			} else {
				b, _ := json.Marshal(ks)
				resp = string(b)
			}
		case recurse:
			var out []kvPair
			var ks []string
			for k := range s.kv {
				if strings.HasPrefix(k, key) {
					ks = append(ks, k)
				}
			}
			sort.Strings(ks)
			for _, k := range ks {
				e := s.kv[k]
				out = append(out, kvPair{Key: k, Value: base64.StdEncoding.EncodeToString(e.Value), CreateIndex: e.CreateIndex, ModifyIndex: e.ModifyIndex})
			}
			if len(out) == 0 {
				status = 404
			} else {
				b, _ := json.Marshal(out)
				resp = string(b)
			}
		default:
			e, ok := s.kv[key]
			_, consistent := q["consistent"]
			if ok && fault == FaultStale && !consistent && len(e.hist) > 1 {
				// a non-consistent read may be served by a follower that is one write behind
				h := e.hist[len(e.hist)-2]
				b, _ := json.Marshal([]kvPair{{Key: key, Value: base64.StdEncoding.EncodeToString(h.val), CreateIndex: e.CreateIndex, ModifyIndex: h.idx}})
				resp = string(b)
			} else if !ok {
				status = 404
			} else {
				b, _ := json.Marshal([]kvPair{{Key: key, Value: base64.StdEncoding.EncodeToString(e.Value), CreateIndex: e.CreateIndex, ModifyIndex: e.ModifyIndex}})
				resp = string(b)
			}
		}
	case http.MethodPut:
		if casS, isCas := q["cas"]; isCas {
			cas, _ := strconv.ParseUint(casS[0], 10, 64)
			e, ok := s.kv[key]
			switch {
			case cas == 0 && ok:
				resp = "false"
			case cas != 0 && (!ok || e.ModifyIndex != cas):
				resp = "false"
			default:
				s.put(key, body)
				resp = "true"
			}
		} else {
			s.put(key, body)
			resp = "true"
		}
		idx = s.index
	case http.MethodDelete:
		if _, ok := s.kv[key]; ok {
			s.index++
			delete(s.kv, key)
		}
		resp = "true"
		idx = s.index
	default:
		status = 405
	}
	s.mu.Unlock()
	switch fault {
	case FaultLostAfter:
		finish(0, "response lost: "+resp, true)
		return nil, errors.New("read tcp: connection reset by peer (simulated, request was applied)")
	case FaultDieAfter:
		finish(0, "caller died after apply: "+resp, true)
		select {}
	}
	simrt.Yield() // response on the wire
	finish(status, resp, true)
	return respond(req, status, resp, idx), nil
}

func respond(req *http.Request, status int, body string, idx uint64) *http.Response {
	h := http.Header{}
	h.Set("Content-Type", "application/json")
	h.Set("X-Consul-Index", fmt.Sprint(idx))
	h.Set("X-Consul-Knownleader", "true")
	h.Set("X-Consul-Lastcontact", "0")
	return &http.Response{
		StatusCode: status, Status: fmt.Sprintf("%d %s", status, http.StatusText(status)),
		Proto: "HTTP/1.1", ProtoMajor: 1, ProtoMinor: 1, Header: h,
		Body: io.NopCloser(bytes.NewReader([]byte(body))), ContentLength: int64(len(body)), Request: req,
	}
}

// Bump atomically adds delta to the decimal counter stored at key (creating it at delta).
func (s *Store) Bump(key string, delta uint64) {
	s.mu.Lock()
	defer s.mu.Unlock()
	cur := uint64(0)
	if e, ok := s.kv[key]; ok {
		cur, _ = strconv.ParseUint(string(e.Value), 10, 64)
	}
	s.put(key, []byte(strconv.FormatUint(cur+delta, 10)))
}
