// simrewrite instruments a scratch copy of a Go module for the simrt deterministic scheduler.
// It never touches /repo: checks copy the working tree first and run this tool on the copy.
//
//	simrewrite -dir <module root> [-tags verif] [-race-points] <package patterns>...
//
// Rules (see DESIGN.md §2.3): R1 sync -> simrt/simsync, R2 channel operations get scheduling
// points, R3 go statements / time.AfterFunc / time.Sleep register goroutines with the scheduler,
// R4 race points (assignments to captured variables inside goroutine literals, write windows on
// shared maps).
package main

import (
	"bytes"
	"flag"
	"fmt"
	"go/ast"
	"go/format"
	"go/token"
	"go/types"
	"os"
	"sort"
	"strconv"
	"strings"

	"golang.org/x/tools/go/ast/astutil"
	"golang.org/x/tools/go/packages"
)

var (
	dir        = flag.String("dir", ".", "module root of the scratch copy")
	tags       = flag.String("tags", "verif", "build tags")
	racePoints = flag.Bool("race-points", true, "insert R4 race points")
	osexec     = flag.String("simos", "", "comma separated package path suffixes in which os/exec, syscall.Kill, os.FindProcess are redirected to simrt/simos")
	verbose    = flag.Bool("v", false, "verbose")
)

type stats struct {
	files, syncImports, recvs, sends, selects, ranges, gos, sleeps, afterfuncs, captured, mapwin, osx, maprange, maprangeSkipped, detselects int
	lint                                                                                              []string
}

func main() {
	flag.Parse()
	cfg := &packages.Config{
		Mode:       packages.NeedName | packages.NeedFiles | packages.NeedCompiledGoFiles | packages.NeedSyntax | packages.NeedTypes | packages.NeedTypesInfo | packages.NeedImports,
		Dir:        *dir,
		BuildFlags: []string{"-tags=" + *tags, "-trimpath"},
		Env:        os.Environ(),
	}
	pkgs, err := packages.Load(cfg, flag.Args()...)
	if err != nil {
		fmt.Fprintln(os.Stderr, "simrewrite: load:", err)
		os.Exit(2)
	}
	bad := false
	for _, p := range pkgs {
		for _, e := range p.Errors {
			fmt.Fprintln(os.Stderr, "simrewrite: package error:", e)
			bad = true
		}
	}
	if bad {
		os.Exit(2)
	}
	st := &stats{}
	simosPkgs := map[string]bool{}
	for _, s := range strings.Split(*osexec, ",") {
		if s != "" {
			simosPkgs[s] = true
		}
	}
	for _, p := range pkgs {
		useSimos := false
		for suf := range simosPkgs {
			if strings.HasSuffix(p.PkgPath, suf) {
				useSimos = true
			}
		}
		for i, f := range p.Syntax {
			name := p.CompiledGoFiles[i]
			if strings.HasSuffix(name, ".pb.go") || strings.HasSuffix(name, "_test.go") || strings.HasSuffix(name, "_string.go") || strings.HasSuffix(name, "_strings.go") {
				continue
			}
			if !strings.HasPrefix(name, *dir) {
				continue // cgo or cache files
			}
			r := &rewriter{pkg: p, file: f, st: st, fset: p.Fset, useSimos: useSimos}
			if r.run() {
				var buf bytes.Buffer
				if err := format.Node(&buf, p.Fset, f); err != nil {
					fmt.Fprintf(os.Stderr, "simrewrite: print %s: %v\n", name, err)
					os.Exit(2)
				}
				if err := os.WriteFile(name, buf.Bytes(), 0o644); err != nil {
					fmt.Fprintln(os.Stderr, "simrewrite:", err)
					os.Exit(2)
				}
				st.files++
			}
		}
	}
	sort.Strings(st.lint)
	for _, l := range st.lint {
		fmt.Fprintln(os.Stderr, "simrewrite: lint:", l)
	}
	fmt.Printf("simrewrite: files=%d sync=%d recv=%d send=%d select=%d rangechan=%d go=%d sleep=%d afterfunc=%d captured-assign=%d map-window=%d simos=%d map-range=%d (not orderable: %d) det-select=%d\n",
		st.files, st.syncImports, st.recvs, st.sends, st.selects, st.ranges, st.gos, st.sleeps, st.afterfuncs, st.captured, st.mapwin, st.osx, st.maprange, st.maprangeSkipped, st.detselects)
}

type rewriter struct {
	pkg      *packages.Package
	file     *ast.File
	fset     *token.FileSet
	st       *stats
	changed  bool
	needRT   bool
	useSimos bool
	needOS   bool
	tmpN     int
	// stack of enclosing goroutine literals (R4)
	goLits []*ast.FuncLit
}

func (r *rewriter) rt(name string) *ast.SelectorExpr {
	r.needRT = true
	return &ast.SelectorExpr{X: ast.NewIdent("simrt"), Sel: ast.NewIdent(name)}
}

func (r *rewriter) callStmt(name string, args ...ast.Expr) ast.Stmt {
	return &ast.ExprStmt{X: &ast.CallExpr{Fun: r.rt(name), Args: args}}
}

func (r *rewriter) isChan(e ast.Expr) bool {
	t := r.pkg.TypesInfo.TypeOf(e)
	if t == nil {
		return false
	}
	_, ok := t.Underlying().(*types.Chan)
	return ok
}

func (r *rewriter) isMap(e ast.Expr) bool {
	t := r.pkg.TypesInfo.TypeOf(e)
	if t == nil {
		return false
	}
	_, ok := t.Underlying().(*types.Map)
	return ok
}

func (r *rewriter) pkgFunc(e ast.Expr, pkgPath, name string) bool {
	sel, ok := e.(*ast.SelectorExpr)
	if !ok || sel.Sel.Name != name {
		return false
	}
	id, ok := sel.X.(*ast.Ident)
	if !ok {
		return false
	}
	pn, ok := r.pkg.TypesInfo.Uses[id].(*types.PkgName)
	return ok && pn.Imported().Path() == pkgPath
}

func (r *rewriter) run() bool {
	// R1: imports
	for _, imp := range r.file.Imports {
		p, _ := strconv.Unquote(imp.Path.Value)
		switch {
		case p == "sync":
			imp.Path.Value = strconv.Quote("simrt/simsync")
			if imp.Name == nil {
				imp.Name = ast.NewIdent("sync")
			}
			r.changed = true
			r.st.syncImports++
		case p == "os/exec" && r.useSimos:
			imp.Path.Value = strconv.Quote("simrt/simos/exec")
			if imp.Name == nil {
				imp.Name = ast.NewIdent("exec")
			}
			r.changed = true
			r.st.osx++
		}
	}

	commStmts := map[ast.Node]bool{}
	goLitSet := map[*ast.FuncLit]bool{}
	ast.Inspect(r.file, func(n ast.Node) bool {
		switch x := n.(type) {
		case *ast.CommClause:
			if x.Comm != nil {
				commStmts[x.Comm] = true
			}
		case *ast.GoStmt:
			if fl, ok := x.Call.Fun.(*ast.FuncLit); ok {
				goLitSet[fl] = true
			}
		case *ast.CallExpr:
			if r.pkgFunc(x.Fun, "time", "AfterFunc") && len(x.Args) == 2 {
				if fl, ok := x.Args[1].(*ast.FuncLit); ok {
					goLitSet[fl] = true
				}
			}
		}
		return true
	})

	pre := func(c *astutil.Cursor) bool {
		n := c.Node()
		if n == nil {
			return true
		}
		if commStmts[n] {
			return false // the communication of a select clause stays as it is
		}
		if fl, ok := n.(*ast.FuncLit); ok && goLitSet[fl] {
			r.goLits = append(r.goLits, fl)
		}
		return true
	}
	post := func(c *astutil.Cursor) bool {
		n := c.Node()
		switch x := n.(type) {
		case *ast.FuncLit:
			if goLitSet[x] && len(r.goLits) > 0 && r.goLits[len(r.goLits)-1] == x {
				r.goLits = r.goLits[:len(r.goLits)-1]
			}
		case *ast.UnaryExpr:
			if x.Op != token.ARROW {
				break
			}
			two := false
			switch p := c.Parent().(type) {
			case *ast.AssignStmt:
				two = len(p.Lhs) == 2 && len(p.Rhs) == 1 && p.Rhs[0] == x
			case *ast.ValueSpec:
				two = len(p.Names) == 2 && len(p.Values) == 1 && p.Values[0] == x
			}
			fn := "Recv"
			if two {
				fn = "Recv2"
			}
			c.Replace(&ast.CallExpr{Fun: r.rt(fn), Args: []ast.Expr{x.X}})
			r.st.recvs++
			r.changed = true
		case *ast.CallExpr:
			switch {
			case r.pkgFunc(x.Fun, "time", "Sleep"):
				x.Fun = r.rt("Sleep")
				r.st.sleeps++
				r.changed = true
			case r.pkgFunc(x.Fun, "time", "AfterFunc"):
				x.Fun = r.rt("AfterFunc")
				r.st.afterfuncs++
				r.changed = true
			case r.useSimos && r.pkgFunc(x.Fun, "syscall", "Kill"):
				x.Fun = &ast.SelectorExpr{X: ast.NewIdent("simos"), Sel: ast.NewIdent("Kill")}
				r.needOS = true
				r.st.osx++
				r.changed = true
			case r.useSimos && r.pkgFunc(x.Fun, "github.com/AliceO2Group/Control/executor/executorcmd", "NewClient"):
				// the blocking gRPC dial to the task's control port goes to the simulated task
				x.Fun.(*ast.SelectorExpr).Sel = ast.NewIdent("NewClientDialedForVerif")
				r.st.osx++
				r.changed = true
			case r.useSimos && r.pkgFunc(x.Fun, "os", "FindProcess"):
				x.Fun = &ast.SelectorExpr{X: ast.NewIdent("simos"), Sel: ast.NewIdent("FindProcess")}
				r.needOS = true
				r.st.osx++
				r.changed = true
			}
		case *ast.GoStmt:
			c.Replace(r.rewriteGo(x))
			r.st.gos++
			r.changed = true
		case *ast.BlockStmt:
			x.List = r.rewriteList(x.List, false)
		case *ast.CaseClause:
			x.Body = r.rewriteList(x.Body, false)
		case *ast.CommClause:
			x.Body = r.rewriteList(x.Body, true)
			r.st.selects++
			r.changed = true
		case *ast.SelectStmt:
			if blk := r.rewriteSelect(x, c.Parent()); blk != nil {
				c.Replace(blk)
				r.st.detselects++
			}
		case *ast.RangeStmt:
			if r.isChan(x.X) {
				x.Body.List = append([]ast.Stmt{r.callStmt("Yield")}, x.Body.List...)
				r.st.ranges++
				r.changed = true
			} else if r.isMap(x.X) {
				// R6: deterministic iteration order inside a simulation
				if mt, ok := r.pkg.TypesInfo.TypeOf(x.X).Underlying().(*types.Map); ok && orderable(mt.Key(), 0) {
					x.X = &ast.CallExpr{Fun: r.rt("OrderedMap"), Args: []ast.Expr{x.X}}
					r.st.maprange++
					r.changed = true
				} else {
					r.st.maprangeSkipped++
				}
				// goroutine ids must not depend on map iteration order
				hasGo := false
				ast.Inspect(x.Body, func(n ast.Node) bool {
					if _, ok := n.(*ast.GoStmt); ok {
						hasGo = true
					}
					if ce, ok := n.(*ast.CallExpr); ok {
						if se, ok := ce.Fun.(*ast.SelectorExpr); ok && se.Sel.Name == "Spawn" {
							hasGo = true
						}
					}
					return true
				})
				if hasGo {
					r.st.lint = append(r.st.lint, fmt.Sprintf("%s: go statement inside range over map", r.fset.Position(x.Pos())))
				}
			}
		}
		return true
	}
	astutil.Apply(r.file, pre, post)

	if r.needRT {
		astutil.AddImport(r.fset, r.file, "simrt")
	}
	if r.needOS {
		astutil.AddNamedImport(r.fset, r.file, "simos", "simrt/simos")
	}
	if r.changed {
		// imports that became unused (e.g. time only used for Sleep)
		for _, p := range []string{"time", "syscall", "os"} {
			if !astutil.UsesImport(r.file, p) {
				astutil.DeleteImport(r.fset, r.file, p)
			}
		}
	}
	return r.changed
}

// rewriteList inserts scheduling points into a statement list.
func (r *rewriter) rewriteList(list []ast.Stmt, commBody bool) []ast.Stmt {
	var out []ast.Stmt
	if commBody {
		out = append(out, r.callStmt("Yield"))
	}
	for _, s := range list {
		inner := s
		for {
			if l, ok := inner.(*ast.LabeledStmt); ok {
				inner = l.Stmt
				continue
			}
			break
		}
		if *racePoints {
			if pre := r.racePointsBefore(inner); pre != nil {
				out = append(out, pre...)
			}
		}
		out = append(out, s)
		switch x := inner.(type) {
		case *ast.SendStmt:
			out = append(out, r.callStmt("Yield"))
			r.st.sends++
			r.changed = true
		case *ast.RangeStmt:
			if r.isChan(x.X) {
				out = append(out, r.callStmt("Yield"))
			}
		case *ast.AssignStmt:
			if *racePoints && r.assignsCaptured(x) {
				out = append(out, r.callStmt("Yield"))
			}
		}
	}
	return out
}

// R7 ------------------------------------------------------------------------------------------

func unparen(e ast.Expr) ast.Expr {
	for {
		p, ok := e.(*ast.ParenExpr)
		if !ok {
			return e
		}
		e = p.X
	}
}

// rewriteSelect turns a select with two or more communication clauses into a simrt.Select,
// whose choice among several ready clauses comes from the tape instead of the runtime's coin.
func (r *rewriter) rewriteSelect(sel *ast.SelectStmt, parent ast.Node) ast.Stmt {
	n := 0
	for _, cl := range sel.Body.List {
		if cc := cl.(*ast.CommClause); cc.Comm != nil {
			n++
		}
	}
	if n < 2 {
		return nil
	}
	if _, labelled := parent.(*ast.LabeledStmt); labelled {
		r.st.lint = append(r.st.lint, fmt.Sprintf("%s: labelled select left to the runtime's choice", r.fset.Position(sel.Pos())))
		return nil
	}
	r.tmpN++
	selName := fmt.Sprintf("simsel%d_", r.tmpN)
	blk := &ast.BlockStmt{}
	blk.List = append(blk.List, &ast.AssignStmt{
		Lhs: []ast.Expr{ast.NewIdent(selName)}, Tok: token.DEFINE,
		Rhs: []ast.Expr{&ast.CallExpr{Fun: r.rt("NewSelect")}},
	})
	sw := &ast.SwitchStmt{Body: &ast.BlockStmt{}}
	hasDefault := false
	idx := 0
	for _, cl := range sel.Body.List {
		cc := cl.(*ast.CommClause)
		body := cc.Body
		// the scheduling point at the head of the clause is made by Select.Run
		if len(body) > 0 {
			if es, ok := body[0].(*ast.ExprStmt); ok {
				if ce, ok := es.X.(*ast.CallExpr); ok {
					if se, ok := ce.Fun.(*ast.SelectorExpr); ok && se.Sel.Name == "Yield" {
						if id, ok := se.X.(*ast.Ident); ok && id.Name == "simrt" {
							body = body[1:]
						}
					}
				}
			}
		}
		if cc.Comm == nil {
			hasDefault = true
			sw.Body.List = append(sw.Body.List, &ast.CaseClause{Body: body})
			continue
		}
		caseBody := []ast.Stmt{}
		switch cm := cc.Comm.(type) {
		case *ast.SendStmt:
			blk.List = append(blk.List, &ast.ExprStmt{X: &ast.CallExpr{
				Fun:  &ast.SelectorExpr{X: ast.NewIdent(selName), Sel: ast.NewIdent("Send")},
				Args: []ast.Expr{cm.Chan, cm.Value},
			}})
		default:
			var recv *ast.UnaryExpr
			var asg *ast.AssignStmt
			switch st := cm.(type) {
			case *ast.ExprStmt:
				recv, _ = unparen(st.X).(*ast.UnaryExpr)
			case *ast.AssignStmt:
				asg = st
				if len(st.Rhs) == 1 {
					recv, _ = unparen(st.Rhs[0]).(*ast.UnaryExpr)
				}
			}
			if recv == nil || recv.Op != token.ARROW {
				r.st.lint = append(r.st.lint, fmt.Sprintf("%s: select clause of unknown shape, select left as it is", r.fset.Position(cc.Pos())))
				return nil
			}
			chName := fmt.Sprintf("simch%d_%d_", r.tmpN, idx)
			blk.List = append(blk.List,
				&ast.AssignStmt{Lhs: []ast.Expr{ast.NewIdent(chName)}, Tok: token.DEFINE, Rhs: []ast.Expr{recv.X}},
				&ast.ExprStmt{X: &ast.CallExpr{
					Fun:  &ast.SelectorExpr{X: ast.NewIdent(selName), Sel: ast.NewIdent("Recv")},
					Args: []ast.Expr{ast.NewIdent(chName)},
				}})
			if asg != nil {
				allBlank := true
				for _, l := range asg.Lhs {
					if id, ok := l.(*ast.Ident); !ok || id.Name != "_" {
						allBlank = false
					}
				}
				if !allBlank {
					fn := "SelValue"
					if len(asg.Lhs) == 2 {
						fn = "SelValue2"
					}
					caseBody = append(caseBody, &ast.AssignStmt{Lhs: asg.Lhs, Tok: asg.Tok, Rhs: []ast.Expr{&ast.CallExpr{
						Fun: r.rt(fn), Args: []ast.Expr{ast.NewIdent(selName), ast.NewIdent(chName)},
					}}})
				}
			}
		}
		caseBody = append(caseBody, body...)
		sw.Body.List = append(sw.Body.List, &ast.CaseClause{
			List: []ast.Expr{&ast.BasicLit{Kind: token.INT, Value: strconv.Itoa(idx)}},
			Body: caseBody,
		})
		idx++
	}
	def := "false"
	if hasDefault {
		def = "true"
	} else {
		// a select without default is a terminating statement if its clauses are; keep that
		sw.Body.List = append(sw.Body.List, &ast.CaseClause{Body: []ast.Stmt{&ast.ExprStmt{X: &ast.CallExpr{
			Fun: ast.NewIdent("panic"), Args: []ast.Expr{&ast.BasicLit{Kind: token.STRING, Value: strconv.Quote("simrt: select without default returned no clause")}},
		}}}})
	}
	sw.Tag = &ast.CallExpr{
		Fun:  &ast.SelectorExpr{X: ast.NewIdent(selName), Sel: ast.NewIdent("Run")},
		Args: []ast.Expr{ast.NewIdent(def)},
	}
	blk.List = append(blk.List, sw)
	r.needRT = true
	r.changed = true
	return blk
}

// R4 ------------------------------------------------------------------------------------------

func (r *rewriter) rootIdent(e ast.Expr) (*ast.Ident, bool) {
	viaField := false
	for {
		switch x := e.(type) {
		case *ast.Ident:
			return x, viaField
		case *ast.SelectorExpr:
			// package-qualified identifier?
			if id, ok := x.X.(*ast.Ident); ok {
				if _, isPkg := r.pkg.TypesInfo.Uses[id].(*types.PkgName); isPkg {
					return x.Sel, false
				}
			}
			viaField = true
			e = x.X
		case *ast.ParenExpr:
			e = x.X
		case *ast.StarExpr:
			e = x.X
		case *ast.IndexExpr:
			e = x.X
		case *ast.CallExpr:
			return nil, true
		default:
			return nil, viaField
		}
	}
}

func (r *rewriter) capturedVar(id *ast.Ident) bool {
	if len(r.goLits) == 0 || id == nil {
		return false
	}
	obj, ok := r.pkg.TypesInfo.Uses[id].(*types.Var)
	if !ok || obj.IsField() {
		return false
	}
	if obj.Parent() == r.pkg.Types.Scope() || obj.Parent() == types.Universe {
		return false
	}
	lit := r.goLits[0] // outermost goroutine literal
	return obj.Pos() < lit.Pos() || obj.Pos() > lit.End()
}

func (r *rewriter) assignsCaptured(a *ast.AssignStmt) bool {
	if a.Tok == token.DEFINE || len(r.goLits) == 0 {
		return false
	}
	for _, l := range a.Lhs {
		if id, ok := l.(*ast.Ident); ok && id.Name != "_" && r.capturedVar(id) {
			return true
		}
	}
	return false
}

// sharedMap: the map expression is a struct field, a package-level variable, or a variable
// captured by a goroutine literal.
func (r *rewriter) sharedMap(m ast.Expr) bool {
	if len(r.goLits) == 0 || !r.isMap(m) {
		return false
	}
	id, viaField := r.rootIdent(m)
	if id == nil {
		return false
	}
	if r.capturedVar(id) {
		return true
	}
	obj, ok := r.pkg.TypesInfo.Uses[id].(*types.Var)
	if !ok {
		return false
	}
	if obj.Parent() == r.pkg.Types.Scope() {
		return true
	}
	if viaField {
		// field of something: shared unless the root is a local composite created here; we
		// cannot know cheaply, so treat receiver/parameter/captured roots as shared
		return true
	}
	return false
}

func (r *rewriter) racePointsBefore(s ast.Stmt) []ast.Stmt {
	var out []ast.Stmt
	switch x := s.(type) {
	case *ast.AssignStmt:
		if r.assignsCaptured(x) {
			out = append(out, r.callStmt("Yield"))
			r.st.captured++
			r.changed = true
		}
		for _, l := range x.Lhs {
			if ix, ok := l.(*ast.IndexExpr); ok && r.sharedMap(ix.X) && pure(ix.X) {
				out = append(out, r.callStmt("WriteWindow", ix.X))
				r.st.mapwin++
				r.changed = true
			}
		}
	case *ast.IncDecStmt:
		if ix, ok := x.X.(*ast.IndexExpr); ok && r.sharedMap(ix.X) && pure(ix.X) {
			out = append(out, r.callStmt("WriteWindow", ix.X))
			r.st.mapwin++
			r.changed = true
		}
	case *ast.ExprStmt:
		if ce, ok := x.X.(*ast.CallExpr); ok {
			if id, ok := ce.Fun.(*ast.Ident); ok && id.Name == "delete" && len(ce.Args) == 2 {
				if _, isBuiltin := r.pkg.TypesInfo.Uses[id].(*types.Builtin); isBuiltin && r.sharedMap(ce.Args[0]) && pure(ce.Args[0]) {
					out = append(out, r.callStmt("WriteWindow", ce.Args[0]))
					r.st.mapwin++
					r.changed = true
				}
			}
		}
	}
	return out
}

// pure: the expression can be evaluated twice without side effects (identifiers, selectors,
// derefs, index by identifier/literal).
func pure(e ast.Expr) bool {
	switch x := e.(type) {
	case *ast.Ident, *ast.BasicLit:
		return true
	case *ast.SelectorExpr:
		return pure(x.X)
	case *ast.StarExpr:
		return pure(x.X)
	case *ast.ParenExpr:
		return pure(x.X)
	case *ast.IndexExpr:
		return pure(x.X) && pure(x.Index)
	}
	return false
}

// orderable: the key type has a canonical %v rendering (no pointers, interfaces, channels).
func orderable(t types.Type, depth int) bool {
	if depth > 4 {
		return false
	}
	switch u := t.Underlying().(type) {
	case *types.Basic:
		return u.Kind() != types.UnsafePointer && u.Kind() != types.Uintptr
	case *types.Struct:
		for i := 0; i < u.NumFields(); i++ {
			if !orderable(u.Field(i).Type(), depth+1) {
				return false
			}
		}
		return true
	case *types.Array:
		return orderable(u.Elem(), depth+1)
	case *types.Pointer, *types.Interface:
		// rendered through the pointee (simrt.keyString): deterministic as long as the objects
		// differ in a leading, address-free field (names, ids)
		return depth == 0
	}
	return false
}

// R3 ------------------------------------------------------------------------------------------

func (r *rewriter) rewriteGo(g *ast.GoStmt) ast.Stmt {
	r.tmpN++
	idName := fmt.Sprintf("simid%d_", r.tmpN)
	idIdent := func() *ast.Ident { return ast.NewIdent(idName) }
	block := &ast.BlockStmt{}
	block.List = append(block.List, &ast.AssignStmt{
		Lhs: []ast.Expr{idIdent()}, Tok: token.DEFINE,
		Rhs: []ast.Expr{&ast.CallExpr{Fun: r.rt("Spawn")}},
	})
	enter := r.callStmt("Enter", idIdent())
	exit := &ast.DeferStmt{Call: &ast.CallExpr{Fun: r.rt("Exit")}}
	if fl, ok := g.Call.Fun.(*ast.FuncLit); ok {
		fl.Body.List = append([]ast.Stmt{enter, exit}, fl.Body.List...)
		block.List = append(block.List, g)
		return block
	}
	// go f(a, b): operands are evaluated by the parent, the call runs in the child
	call := g.Call
	var lhs, rhs []ast.Expr
	newCall := &ast.CallExpr{Ellipsis: call.Ellipsis}
	fname := fmt.Sprintf("simfn%d_", r.tmpN)
	lhs = append(lhs, ast.NewIdent(fname))
	rhs = append(rhs, call.Fun)
	newCall.Fun = ast.NewIdent(fname)
	for i, a := range call.Args {
		tv := r.pkg.TypesInfo.Types[a]
		if tv.Value != nil || tv.IsNil() {
			newCall.Args = append(newCall.Args, a)
			continue
		}
		if _, isLit := a.(*ast.FuncLit); isLit {
			newCall.Args = append(newCall.Args, a)
			continue
		}
		an := fmt.Sprintf("simarg%d_%d_", r.tmpN, i)
		lhs = append(lhs, ast.NewIdent(an))
		rhs = append(rhs, a)
		newCall.Args = append(newCall.Args, ast.NewIdent(an))
	}
	block.List = append(block.List, &ast.AssignStmt{Lhs: lhs, Tok: token.DEFINE, Rhs: rhs})
	lit := &ast.FuncLit{
		Type: &ast.FuncType{Params: &ast.FieldList{}},
		Body: &ast.BlockStmt{List: []ast.Stmt{enter, exit, &ast.ExprStmt{X: newCall}}},
	}
	block.List = append(block.List, &ast.GoStmt{Call: &ast.CallExpr{Fun: lit}})
	return block
}
