#!/bin/bash
# keep_mutant.sh <mutant dir> <property> <needs> <caught-by> <ran>  : copy into /verif/seeded/<name>/ with meta.json
M="$1"; PROP="$2"; NEEDS="$3"; CAUGHT="$4"; RAN="$5"
N="$(basename "$M")"; D="/verif/seeded/$N"; mkdir -p "$D"
cp "$M"/patch.diff "$D"/; cp "$M"/*_test.go "$D"/ 2>/dev/null; cp "$M"/notes.md "$D"/ 2>/dev/null
python3 - "$D" "$PROP" "$NEEDS" "$CAUGHT" "$RAN" <<'PY'
import json,sys
d,prop,needs,caught,ran=sys.argv[1:6]
json.dump({"breaks_property":prop,"needs_to_manifest":needs,"caught_by":caught,"what_i_ran":ran,"source":"independent sub-agent given only the property text and a scratch worktree"},open(d+"/meta.json","w"),indent=1)
PY
echo kept $N
