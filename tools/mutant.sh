#!/bin/bash
# mutant.sh verify <mutant dir> <package dir> <go test -run regexp> [extra go test flags]
#    checks in a scratch worktree of /repo HEAD: patch applies, builds, existing suite still passes,
#    demo fails with the patch and passes without it.
# mutant.sh detect <patch.diff> <property> [tier]
#    applies the patch to /repo, runs the check, reverts /repo.
set -uo pipefail
export GOFLAGS=-mod=mod GOPROXY=off GOSUMDB=off
cmd="$1"; shift
case "$cmd" in
verify)
  M="$(cd "$1" && pwd)"; PKG="$2"; RUN="$3"; shift 3; EXTRA="$*"
  W="$(mktemp -d /tmp/mv.XXXXXX)"; rmdir "$W"
  git -C /repo worktree add -q --detach "$W" HEAD || exit 2
  trap 'git -C /repo worktree remove --force "$W" >/dev/null 2>&1' EXIT
  cd "$W"
  git apply --check "$M/patch.diff" || { echo "VERIFY: patch does not apply"; exit 1; }
  for f in "$M"/*_test.go; do cp "$f" "$W/$PKG/"; done
  echo "--- demo WITHOUT patch (must pass)"
  go test -vet=off -count=1 -run "$RUN" $EXTRA "./$PKG/" 2>&1 | tail -3
  r0=${PIPESTATUS[0]}
  git apply "$M/patch.diff"
  echo "--- build with patch"; go build ./... || { echo "VERIFY: does not build"; exit 1; }
  echo "--- demo WITH patch (must fail)"
  go test -vet=off -count=1 -run "$RUN" $EXTRA "./$PKG/" 2>&1 | tail -5
  r1=${PIPESTATUS[0]}
  for f in "$M"/*_test.go; do rm -f "$W/$PKG/$(basename "$f")"; done
  echo "--- existing suite with patch"
  go test -vet=off -count=1 ./... > "$W/.suite.log" 2>&1
  grep "^FAIL[[:space:]]\+github.com" "$W/.suite.log" | grep -v walnut
  fails=$(grep "^FAIL[[:space:]]\+github.com" "$W/.suite.log" | grep -v walnut | wc -l)
  echo "VERIFY: demo-without=$r0 (want 0) demo-with=$r1 (want !=0) suite-nonwalnut-fail-lines=$fails (want 0)"
  ;;
detect)
  P="$(readlink -f "$1")"; PROP="$2"; TIER="${3:-quick}"
  [ -z "$(git -C /repo status --porcelain --untracked-files=no)" ] || { echo "DETECT: /repo not clean"; exit 2; }
  git -C /repo apply "$P" || { echo "DETECT: patch does not apply"; exit 2; }
  ( cd /verif && VERIF_EVIDENCE_DIR=/tmp ./vcheck "$PROP" --tier "$TIER" 2>&1 | tail -8 ); rc=${PIPESTATUS[0]}
  git -C /repo checkout -- .
  echo "DETECT: exit=$rc"
  ;;
esac
