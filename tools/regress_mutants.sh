#!/bin/bash
# Runs every kept seeded change against its property's quick check (applies the patch to /repo, reverts afterwards).
# Usage: tools/regress_mutants.sh [name-prefix]    -> one line per mutant: name property exit
cd /verif
for d in seeded/${1:-}*/; do
  n=$(basename "$d"); p=$(python3 -c "import json;print(json.load(open('$d/meta.json'))['breaks_property'])")
  out=$(./tools/mutant.sh detect "$d/patch.diff" "$p" quick 2>&1)
  rc=$(echo "$out" | grep -o "DETECT: exit=[0-9]*" | tail -1)
  v=$(echo "$out" | grep "^violation" | head -1 | cut -c1-140)
  echo "$n $p $rc $v"
done
