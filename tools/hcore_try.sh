#!/bin/bash
# hcore_try.sh <prop> <seed0> <count> [scratch]: runs the hcore harness one process per seed (development aid)
P=$1; S0=$2; N=$3; S=${4:-/var/tmp/vs5}
for ((i=0;i<N;i++)); do
  seed=$((S0+i))
  SIM_PROP=$P SIM_SEED0=$seed SIM_COUNT=1 SIM_OUT=$S/o.$seed.json SIM_REPLAY_DIR=$S/r SIM_SHRINK_S=${SHRINK:-20} timeout 300 $S/hcore.test -test.run TestSim >$S/log.$seed 2>&1 || echo "seed $seed: exit $?"
done
python3 - "$S" "$S0" "$N" <<'PY'
import json,sys,collections
S,s0,n=sys.argv[1],int(sys.argv[2]),int(sys.argv[3])
reasons=collections.Counter(); viol=collections.Counter(); first={}
steps=0; wall=0
for i in range(n):
    try: o=json.load(open(f"{S}/o.{s0+i}.json"))
    except Exception as e: print("seed",s0+i,"no output"); continue
    reasons.update(o['reasons']); steps+=o['steps']; wall+=o['wall_seconds']
    for v in (o['violations'] or []):
        k=v['violation']['oracle']+'/'+v['violation']['sig']; viol[k]+=1
        first.setdefault(k,(v['seed'],v['violation']['msg'][:600],v['shrunk_len']))
print("reasons",dict(reasons),"avg steps",steps//max(n,1),"wall",round(wall,1))
for k,c in viol.most_common(): print(c,k,first[k])
PY
