#!/bin/bash
# detect_on_copy.sh <patch> <prop> [runs] : run a check against a scratch copy of /repo with the patch applied (VERIF_REPO); VDIR selects the verif tree
P="$(readlink -f "$1")"; PROP="$2"; R=/var/tmp/mrepo.$$; rm -rf $R; rsync -a --exclude .git --exclude '*.test' --exclude MUTANTS /repo/ $R/
( cd $R && git apply "$P" ) || { echo "does not apply"; rm -rf $R; exit 2; }
cd ${VDIR:-/verif}; export VERIF_REPO=$R VERIF_EVIDENCE_DIR=/var/tmp/mev.$$; [ -n "${3:-}" ] && export VERIF_RUNS=$3 VERIF_BUDGET_S=300; ./vcheck $PROP --tier quick 2>&1 | grep -v "^KNOWN" | tail -4 | cut -c1-500; rc=${PIPESTATUS[0]}
rm -rf $R /var/tmp/mev.$$; echo "exit=$rc"
