#!/bin/bash
# Like regress_mutants.sh but works on scratch copies of /repo's working tree (VERIF_REPO), so that
# several seeded changes can be checked at once and /repo is never touched.
# Usage: tools/regress_mutants_par.sh <outfile> [parallel=2] [name-prefix]
cd /verif
OUT="$1"; PAR="${2:-2}"; PFX="${3:-}"
: > "$OUT"
one() {
  d="/verif/${1%/}"; n=$(basename "$d"); p=$(python3 -c "import json;print(json.load(open('$d/meta.json'))['breaks_property'])")
  R=/var/tmp/mrepo.$n; rm -rf "$R"; rsync -a --exclude .git --exclude '*.test' /repo/ "$R"/
  if ! ( cd "$R" && git apply "$d/patch.diff" 2>/dev/null ); then echo "$n $p does-not-apply" >> "$OUT"; rm -rf "$R"; return; fi
  out=$(VERIF_REPO="$R" VERIF_EVIDENCE_DIR=/var/tmp/mev.$n ./vcheck "$p" --tier quick 2>&1); rc=$?
  v=$(echo "$out" | grep "^violation" | head -1 | cut -c1-160)
  echo "$n $p exit=$rc $v" >> "$OUT"
  rm -rf "$R" /var/tmp/mev.$n
}
export -f one; export OUT
ls -d seeded/${PFX}*/ | xargs -P "$PAR" -I{} bash -c 'one {}'
sort -o "$OUT" "$OUT"
