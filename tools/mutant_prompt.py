#!/usr/bin/env python3
"""Prints the prompt given to a fresh sub-agent asked to break one property (only the property text + its worktree)."""
import json, sys
pid = sys.argv[1]; wt = sys.argv[2]; n = sys.argv[3] if len(sys.argv) > 3 else "2"
p = [json.loads(l) for l in open('/verif/properties.jsonl') if json.loads(l)['id'] == pid][0]
print(f"""You are helping evaluate a verification effort for the Go project AliceO2Group/Control (AliECS, the ALICE experiment control system). You have your own scratch git worktree of the repository at {wt} (work ONLY there; never touch /repo or /verif, and do not read anything under /verif).

Property {pid}: {p['title']}
Statement: {p['statement']}
Quantified: {p['quantifier']['text']}
Relevant files: {', '.join(p['anchors']['files'])}

Task: produce {n} DIFFERENT, independent, realistic code changes (bugs a developer could plausibly introduce: a refactor gone wrong, a dropped lock, a wrong condition, a lost update, an off-by-one, a reordered step) to the NON-TEST Go sources in {wt} such that each change
  (a) BREAKS the property above,
  (b) still compiles (`go build ./...`) and still passes the existing test suite unchanged (`go test -vet=off -count=1 ./...` in {wt}; 4 walnut tests fail already on the pristine tree and may be ignored),
  (c) needs something SPECIFIC to manifest - a particular interleaving, a fault/crash at a particular point, a multi-step sequence of operations, an unusual input, or two cooperating sites that each look fine alone - NOT something ordinary use would expose at once.
For each change also write a demonstration: a Go test (or small program) that FAILS with the change applied and PASSES without it. The demonstration may use internal (same-package) test files and may be deterministic by construction (e.g. forcing the order with channels/sleeps, or looping until the race hits).

Environment: no network. In every shell call first run: export GOFLAGS=-mod=mod GOPROXY=off GOSUMDB=off   (use the default `go`, 1.23). Files named verif_hooks.go (build tag verif) are test hooks, leave them alone.

Deliverables: for change k (k = 1..{n}) create the directory {wt}/MUTANTS/{pid}-m<k>/ containing
  - patch.diff : `git diff` of the change to non-test sources only (it must apply with `git apply` on a clean checkout of the worktree's HEAD),
  - the demonstration file(s) (e.g. demo_test.go, with a comment on top saying into which package directory it must be copied and the exact `go test -run ...` command),
  - notes.md : what the change is, why it breaks the property, what it needs in order to manifest, and the commands you ran with their outcome (build, full test suite with the change, demo with and without the change).
Leave the worktree's tracked files clean at the end (git checkout -- . ; remove demo files you copied into package dirs), only MUTANTS/ remains. Keep each change small (a few lines). Finally reply with a short summary per change.""")
