#!/usr/bin/env python3
"""Generates /verif/MANIFEST.json from the table below (keeps claimed / not_applicable consistent)."""
import json, os, subprocess
V = os.path.dirname(os.path.dirname(os.path.abspath(__file__)))
ids = [json.loads(l)["id"] for l in open(os.path.join(V, "properties.jsonl"))]

TECH = "deterministic simulation with fault injection: seeded schedule/fault search over the real code in a synctest bubble (simrt parking scheduler), oracle on recorded history"

checks = {
 "C19": dict(harness="hev", design="§6 C19",
   text="Seeded exploration of the real KafkaWriter/FifoBuffer under the simrt scheduler with a simulated broker (latency, stalls) and Close at drawn instants; oracles: exactly-once, per-producer order, flush on Close, partition key, bounded non-empty batches, producers never wait, Close bounded. Sampling of schedules and broker behaviours, not a proof.",
   note="Trusts the instrumentation (simrewrite) to preserve behaviour and synctest's fake clock; broker is a stub that never fails a write; publishing after Close is out of scope."),
 "C12": dict(harness="hcmdq", design="§6 C12",
   text="Seeded exploration of the real CommandQueue+Servent with concurrent clients and per-(command,target) executor behaviours (reply, error, send failure, silence, duplicate, late, foreign id, id of another command, wrong sender) delivered in schedule-decided order; oracles: exactly one completion per command, within the command's own timeout, per-target attribution by unique reply nonce, target set preserved, queue alive afterwards.",
   note="Executors and the send function are stubs (the code's own SendCommandFunc seam); delays within 10% of the timeout are not generated; one queue per servent as in the core."),
 "C11": dict(harness="htree", design="§6 C11",
   text="Seeded exploration of the real role tree (aggregator/include/task/call roles, SafeState/SafeStatus, ParentAdapter) under 1-4 concurrent updaters of distinct leaves, a final round of 2-3 single racing updates; after every round every node is compared with a reference fold written from the statement, and what the ParentAdapter subscriber received is checked for lost or invented ERROR.",
   note="Trees are generated programmatically through verif-tagged constructors (not loaded from templates); every leaf receives a status in the first round; one updater per leaf at a time."),
 "C16": dict(harness="hdev", design="§6 C16", level="fault_enumeration",
   technique="deterministic simulation with exhaustive fault enumeration: depth-first walk of the complete decision tape tree (transition x mode x real device state x outcome of every device step) over the real transitioner and RPC client against a simulated device",
   text="Complete enumeration (both tiers) of every transition from every believed and real device state with every outcome of every device step (done, refused, error state, request lost, reply lost, wrong event, wrong trigger) against a reference FairMQ / O2 device; oracles: reported state is the image of the real device state or nothing is claimed, no error only if the device reached the destination, single refused step at an intermediate state is rolled back to the source when the device accepts the rollback.",
   note="The device is a model written from the FairMQ state machine documentation (stable states); the gRPC transport is replaced by an injected pb.OccClient (verif hook)."),
 "C07": dict(harness="hrn", design="§6 C07",
   technique="deterministic simulation with fault injection: seeded schedules of concurrent callers, foreign writers, request faults and caller crashes over the real Consul client path; history checked for uniqueness and (porcupine) linearizability against a fetch-and-increase register",
   text="Seeded exploration of the real NewRunNumber path (apricot service, ConsulSource.GetNextUInt32, hashicorp consul api client) of several cores sharing one simulated Consul: concurrent callers, atomic foreign writers, request faults (500, connection error, response lost after apply, slow), core death before/after a request was applied, restarts. Oracles: successful numbers pairwise distinct, linearizable against a strictly increasing register (porcupine), every success backed by an applied successful CAS, calls of live cores return.",
   note="Consul is a model (linearizable consistent reads, atomic cas) behind an http.RoundTripper; the START_ACTIVITY side of the property (start cancelled when no number can be had) is exercised by the environment harness."),
 "C01": dict(harness="henv", design="§6 C01",
   text='Seeded exploration of one real Environment (FSM, TryTransition, hooks) under 1-3 concurrent callers issuing legal and illegal requests with injected task and hook outcomes; oracles: transitions never overlap (brackets of the events published under the transition lock), reference FSM over the serialisation order (legal/illegal, outcome, resulting state), illegal requests run no hook and no task transition, only documented states are shown, every request returns (a self-deadlock is a violation).',
   note='One real Environment with an injected task-transition body (verif hook) and a probe plugin registered through the public integration API; callers follow the API rule (GO_ERROR after a failed request, forced ERROR if refused) as core/server.go does; teardown and the RPC layer are outside this harness; hook tasks are not generated (calls only).'),
 "C08": dict(harness="henv", design="§6 C08",
   text='Same simulation; oracles over sequence-numbered probe records: each hook runs exactly when its trigger point is reached and never before it, weights ascend, an awaited call has returned before anything later starts (also across transitions), hooks of one trigger expression are started together (probes block until all have started), calls still pending at the end are exactly those whose await point was not reached.',
   note='One real Environment with an injected task-transition body (verif hook) and a probe plugin registered through the public integration API; callers follow the API rule (GO_ERROR after a failed request, forced ERROR if refused) as core/server.go does; teardown and the RPC layer are outside this harness; hook tasks are not generated (calls only).'),
 "C09": dict(harness="henv", design="§6 C09",
   text='Same simulation with failing hooks (critical or not, several at once); oracles: critical failure at before_/leave_ cancels (state kept, nothing later runs, no task transition), at enter_/after_ is reported with the destination kept, non-critical failures change nothing, the error names the failure, simultaneous failures do not corrupt the core (R4 write windows detect concurrent map writes).',
   note='One real Environment with an injected task-transition body (verif hook) and a probe plugin registered through the public integration API; callers follow the API rule (GO_ERROR after a failed request, forced ERROR if refused) as core/server.go does; teardown and the RPC layer are outside this harness; hook tasks are not generated (calls only).'),
 "C10": dict(harness="henv", design="§6 C10",
   text='Same simulation biased towards START/STOP/GO_ERROR sequences; probes snapshot run_number and the four run timestamps; oracles: number absent before and present from the non-negative before_START_ACTIVITY hooks to the end of the stopping transition, constant during the run, timestamps set at most once and ordered, nothing of the previous run visible at the start of the next, end timestamps set however the run ended and unchanged between two runs (run number allocation made to fail at a START - Consul down, CAS refused - begins no run). A quarter of the workers run the whole-core simulation instead (real task-transition bodies and teardown, hook tasks): the published run events must show exactly two end-of-run events per run however it ends.',
   note='One real Environment with an injected task-transition body (verif hook) and a probe plugin registered through the public integration API; callers follow the API rule (GO_ERROR after a failed request, forced ERROR if refused) as core/server.go does; teardown and the RPC layer are outside this harness; hook tasks are not generated (calls only).'),
 "C02": dict(harness="hcore", design="§6 C02",
   text="Whole-core simulation (one OS process per run): the real RPC methods, environment manager and FSM, task manager, scheduler handlers, command queue, workflow loading, Consul client and mesos-go controller against simmesos/simconsul; per task and per transition an outcome is drawn (ok, error reply staying / going to ERROR, silent, undeliverable, dies; for DEPLOY: starts, late, fails, never); one in twelve goroutine starts of the core is held back for a drawn simulated delay (a thread late to be scheduled). Oracle: each API request succeeds iff every critical active task acknowledged, destination never reported and error returned otherwise, environment in ERROR afterwards, every request returns; crashes of the core are violations.",
   note="simmesos is a model written from the Mesos scheduler API documentation; RPC methods are invoked on the RpcServer object (no gRPC transport); violations are confirmed by replaying the recorded tape in a fresh process (not shrunk)."),
 "C03": dict(harness="hcore", design="§6 C03",
   text='Whole-core simulation: an environment in CONFIGURED or RUNNING, a victim task and a failure kind (TASK_FAILED/LOST/KILLED, executor or agent FAILURE, TASK_INTERNAL_ERROR) injected at a drawn instant, idle or racing with a transition; oracle: a critical victim drives the environment to ERROR within 150 simulated s and the end of the run is recorded; a non-critical victim changes nothing beyond what clients asked for.',
   note='simmesos/simconsul are models; RPC methods are invoked on the RpcServer object; one OS process per run; violations are confirmed by replay in a fresh process (tapes not shrunk).'),
 "C04": dict(harness="hcore", design="§6 C04",
   text='Whole-core simulation with several environments over shared hosts and detectors and concurrent create/control/destroy/cleanup clients; oracles at every observation and over the call history at the simulated master: detectors pairwise disjoint, no KILL of a task owned by an environment nobody destroys, requests return.',
   note='simmesos/simconsul are models; RPC methods are invoked on the RpcServer object; one OS process per run; violations are confirmed by replay in a fresh process (tapes not shrunk).'),
 "C06": dict(harness="hcore", design="§6 C06",
   text='Whole-core simulation of destroys in every state with every flag combination and of creations failing at template load, deployment and configuration, with DESTROY hook tasks; oracles: nothing of a vanished environment stays listed or owned, every task it owned was asked to terminate unless keep-tasks, no success while still listed, leftovers fall to the next cleanup.',
   note='simmesos/simconsul are models; RPC methods are invoked on the RpcServer object; one OS process per run; violations are confirmed by replay in a fresh process (tapes not shrunk).'),
 "C17": dict(harness="hexec", design="§6 C17",
   text="Seeded simulation of the real executor on a simulated operating system (process groups, signals, zombies) with scripted child processes and a simulated OCC device; the harness plays agent and core and sends LAUNCH / transitions / triggers / KILL at drawn instants under seeded schedules and a fake clock; oracles: at most one terminal status and nothing after it, killed-on-request is never FAILED, no process of the group alive 60 s after STOP/KILL, no panic (recovered and named by call site) and the event loop still serves a LAUNCH.",
   note="simos and the device are models (semantics of kill/zombies/exec.Cmd checked against the real ones); DIRECT/BASIC/HOOK control modes; Run's HTTP subscription loop replaced by the harness."),
 "C18": dict(harness="hcore", design="§6 C18",
   text='Whole-core simulation with crash (incarnation frozen at a drawn decision; only simconsul and simmesos survive) and restart, or subscription drop and re-subscribe; oracles: same framework identity after restart, every surviving task of the previous life killed, no environment listed; reconciliation after a mere reconnection kills nothing owned and changes no state.',
   note='simmesos/simconsul are models; RPC methods are invoked on the RpcServer object; one OS process per run; violations are confirmed by replay in a fresh process (tapes not shrunk).'),
 "C05": dict(harness="hcore", design="§6 C05",
   text='Whole-core simulation over generated clusters (attributes, scarce scalars, fragmented ports) and workflows with constraints at every level; the simulated master validates every ACCEPT as Mesos does and the harness checks constraints (reference merge), wants, static ports and that unused offers are declined; input generation is coupled with the concurrent per-offer matching goroutines under seeded schedules.',
   note='simmesos/simconsul are models; one OS process per run; violations are confirmed by replay in a fresh process.'),
 "C13": dict(harness="hcore", design="§6 C13",
   text="Whole-core simulation of workflows with bind/connect declarations (role paths, aliases, explicit and dangling targets, tcp/ipc, transports); the oracle relates the CONFIGURE arguments received by the simulated executors to the ports the simulated master saw allocated: outbound address = binder's host + binder's bound port, transport of the inbound side, invalid configurations rejected.",
   note='simmesos/simconsul are models; one OS process per run; violations are confirmed by replay in a fresh process.'),
 "C15": dict(harness="hload", design="§6 C15",
   text="Seeded simulation of the real workflow template processing: a generated template is loaded sequentially and under drawn settings of the three concurrency switches, each load under a seeded schedule of the per-child goroutines with race points on captured variables; the resulting trees are compared with an independent reference expansion (pruning, emptied aggregators, one child per range element in order) and with each other; an injected template error must fail every load.",
   note="Template language subset generated by the harness; fake repository; no include roles."),
}

na = {
 "C14": "pure function of the role tree and three key/value hierarchies: no schedule, clock, fault or crash in statement or quantifier (inputs/configurations only) - not a simulation target (DESIGN §7)",
 "C20": "pure functions of a query string and a static key space (inputs/configurations only): nothing for a scheduler or fault injector to decide (DESIGN §7)",
}
pending = "check planned in DESIGN §6 but not built yet; not claimed until its harness exists"

hooks = subprocess.run(["git", "-C", "/repo", "log", "--format=%H %s", "--grep=^verif hook"], capture_output=True, text=True).stdout.strip().splitlines()
m = {
 "version": 1,
 "setup_cmd": "./setup.sh",
 "hooks": {
  "guard": "verif",
  "enable": "go build tag: every check copies /repo's working tree to a scratch dir, instruments the copy (tools/simrewrite) and builds its harness with `go test -c -tags verif` (go1.26.8); hook code lives only in new files named verif_hooks.go guarded by //go:build verif",
  "baseline_off_cmd": "cd /repo && go test -mod=mod -vet=off -count=1 -timeout 25m ./...",
  "source_commits": [h.split()[0] for h in hooks],
  "add_only": True,
 },
 "engines": [
  {"name": "simrt", "path": "simrt/", "serves_properties": sorted(checks), "kind_free_text": "parking scheduler + decision tape inside a testing/synctest bubble; sim-aware sync; crash by incarnation"},
  {"name": "simrewrite", "path": "tools/simrewrite/", "serves_properties": sorted(checks), "kind_free_text": "go/types based source instrumentation of a scratch copy of /repo (never of /repo itself)"},
  {"name": "hk + vcheck", "path": "hk/ cmd/vcheck/", "serves_properties": sorted(checks), "kind_free_text": "batch runner, tape shrinker, replay files, evidence writer, known-findings filter"},
 ],
 "checks": [],
 "notes": "All checks: ./vcheck <id> --tier quick|thorough; VERIF_SEED offsets the seed list. Exit 0 held / 1 VIOLATION / 2 harness trouble. Known findings: known_findings.txt. See DESIGN.md.",
 "not_applicable": [],
}
for i in ids:
    if i in checks:
        c = checks[i]
        m["checks"].append({
         "property_id": i,
         "quick_cmd": f"./vcheck {i} --tier quick",
         "thorough_cmd": f"./vcheck {i} --tier thorough",
         "evidence_file": f"evidence/{i}.json",
         "replay_cmd_template": f"./vcheck {i} --replay {{path}}",
         "engine": "simrt",
         "level_claimed": {"category": c.get("level", "exploration"), "text": c["text"], "design_ref": c["design"]},
         "level_note": c["note"],
         "technique": c.get("technique", TECH),
        })
    else:
        m["not_applicable"].append({"property_id": i, "reason": na.get(i, pending)})
json.dump(m, open(os.path.join(V, "MANIFEST.json"), "w"), indent=1)
print("claimed:", sorted(checks), "not claimed:", [x["property_id"] for x in m["not_applicable"]])
