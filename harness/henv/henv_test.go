package henv

import (
	"fmt"
	"io"
	"os"
	"sort"
	"strconv"
	"strings"
	"testing"
	"time"

	"github.com/AliceO2Group/Control/apricot"
	"github.com/AliceO2Group/Control/apricot/local"
	"github.com/AliceO2Group/Control/common/event/topic"
	pb "github.com/AliceO2Group/Control/common/protos"
	"github.com/AliceO2Group/Control/common/utils/uid"
	"github.com/AliceO2Group/Control/configuration/cfgbackend"
	"github.com/AliceO2Group/Control/core/environment"
	"github.com/AliceO2Group/Control/core/integration"
	"github.com/AliceO2Group/Control/core/task"
	"github.com/AliceO2Group/Control/core/the"
	"github.com/AliceO2Group/Control/core/workflow"
	"github.com/AliceO2Group/Control/core/workflow/callable"
	"github.com/sirupsen/logrus"
	"github.com/spf13/viper"

	"simrt"
	"simrt/simsync"
	"verif/hk"
	"verif/peers/simconsul"
)

// H-env: one real Environment (FSM, TryTransition, hook machinery, callable.Call) with an
// injected task-transition body, a probe plugin registered through the public integration API,
// the real run-number path over a simulated Consul, and capturing event writers.
// Serves C01 (graph, mutual exclusion, illegal requests), C08 (hook order / await), C09 (hook
// failures), C10 (run number and timestamps); which oracles report is selected by SIM_PROP.

// ---- documented graph (from the handbook / property statement; not read from the code) ----
var graph = map[string]struct {
	src []string
	dst string
}{
	"DEPLOY":         {[]string{"STANDBY"}, "DEPLOYED"},
	"CONFIGURE":      {[]string{"DEPLOYED"}, "CONFIGURED"},
	"START_ACTIVITY": {[]string{"CONFIGURED"}, "RUNNING"},
	"STOP_ACTIVITY":  {[]string{"RUNNING"}, "CONFIGURED"},
	"RESET":          {[]string{"CONFIGURED"}, "DEPLOYED"},
	"GO_ERROR":       {[]string{"STANDBY", "DEPLOYED", "CONFIGURED", "RUNNING"}, "ERROR"},
}

var events = []string{"DEPLOY", "CONFIGURE", "START_ACTIVITY", "STOP_ACTIVITY", "RESET", "GO_ERROR"}

func legal(ev, state string) bool {
	for _, s := range graph[ev].src {
		if s == state {
			return true
		}
	}
	return false
}

// ---- scenario ----

type hookSpec struct {
	Name     string `json:"name"`
	Trigger  string `json:"trigger"`
	Await    string `json:"await"`
	Critical bool   `json:"critical"`
	Fail     bool   `json:"fail,omitempty"`
	DelayMs  int    `json:"delay_ms,omitempty"`
	Sentinel bool   `json:"sentinel,omitempty"`
}

type reqSpec struct {
	Client   int    `json:"client"`
	Event    string `json:"event"`
	BodyFail bool   `json:"body_fail,omitempty"`
	BodyMs   int    `json:"body_ms,omitempty"`
	// results
	Err    string `json:"err,omitempty"`
	invoke int
	ret    int
}

type scenario struct {
	Clients  int         `json:"clients"`
	Hooks    []*hookSpec `json:"hooks"`
	Requests []*reqSpec  `json:"requests"`
	RNFault  string      `json:"run_number_fault,omitempty"`
	Final    string      `json:"final_state"`
}

// ---- records ----

type rec struct {
	seq   int
	at    time.Duration
	kind  string // probe-start, probe-end, body-start, body-end, ev, poll
	name  string // hook name / event
	step  string // for ev: TransitionStep or message
	msg   string
	state string
	errS  string
	vars  map[string]string
	rn    uint32
	inst  int // probe-end: seq of the matching probe-start
}

type world struct {
	rnFaultSeqs []int // event sequence numbers at which a run number allocation was made to fail
	c           *hk.Ctx
	mu          simsync.Mutex
	seq         int
	recs        []*rec
	calls       []*tcall             // every TryTransition call made by the clients (requests and API-rule GO_ERRORs)
	hooks       map[string]*hookSpec // by role path
	group       map[string]int       // trigger expr -> number of members started in the current phase
	groupN      map[string]int
}

// tcall: one call of TryTransition as its caller saw it
type tcall struct {
	event    string
	inv, ret int
	errS     string
}

var cur *world // the probe plugin is process-global; one run at a time per process

func (w *world) add(r *rec) *rec {
	w.mu.Lock()
	w.seq++
	r.seq = w.seq
	r.at = w.c.S.Now()
	w.recs = append(w.recs, r)
	w.mu.Unlock()
	return r
}

// ---- probe plugin (public integration API) ----

type plugin struct{}

func (plugin) GetName() string                                     { return "sp" }
func (plugin) GetPrettyName() string                               { return "sim probe" }
func (plugin) GetEndpoint() string                                 { return "sim" }
func (plugin) GetConnectionState() string                          { return "READY" }
func (plugin) GetData([]any) string                                { return "" }
func (plugin) GetEnvironmentsData([]uid.ID) map[uid.ID]string      { return nil }
func (plugin) GetEnvironmentsShortData([]uid.ID) map[uid.ID]string { return nil }
func (plugin) Init(string) error                                   { return nil }
func (plugin) Destroy() error                                      { return nil }
func (plugin) ObjectStack(map[string]string, map[string]string) map[string]interface{} {
	return map[string]interface{}{}
}

var runVars = []string{"run_number", "runNumber", "run_start_time_ms", "run_start_completion_time_ms", "run_end_time_ms", "run_end_completion_time_ms"}

func (plugin) CallStack(data interface{}) map[string]interface{} {
	call, ok := data.(*callable.Call)
	if !ok {
		return nil
	}
	return map[string]interface{}{
		"Probe": func() string {
			w := cur
			path := call.GetParentRolePath()
			h := w.hooks[path]
			snap := map[string]string{}
			for _, k := range runVars {
				if v, ok := call.VarStack[k]; ok {
					snap[k] = v
				}
			}
			name := path
			if h != nil {
				name = h.Name
			}
			ps := w.add(&rec{kind: "probe-start", name: name, step: call.Traits.Trigger, vars: snap})
			if h != nil {
				// hooks of equal trigger expression are started together: nobody finishes before
				// all members of the group have started (a serialising implementation hangs here)
				w.mu.Lock()
				w.group[h.Trigger]++
				w.mu.Unlock()
				simrt.YieldCond(func() bool { return w.group[h.Trigger]%w.groupN[h.Trigger] == 0 })
				if h.DelayMs > 0 {
					simrt.Sleep(time.Duration(h.DelayMs) * time.Millisecond)
				}
				if h.Fail {
					if h.Critical {
						w.c.Count("fault.critical_hook_fails")
					} else {
						w.c.Count("fault.noncritical_hook_fails")
					}
					call.VarStack["__call_error"] = "probe " + h.Name + " failed on purpose"
				}
			}
			w.add(&rec{kind: "probe-end", name: name, step: call.Traits.Trigger, inst: ps.seq})
			return ""
		},
	}
}

// ---- capturing event writer ----

type capWriter struct{ w *world }

func (cw capWriter) WriteEvent(e interface{}) { cw.WriteEventWithTimestamp(e, time.Now()) }
func (cw capWriter) Close()                   {}
func (cw capWriter) WriteEventWithTimestamp(e interface{}, _ time.Time) {
	switch ev := e.(type) {
	case *pb.Ev_EnvironmentEvent:
		cw.w.add(&rec{kind: "ev", name: ev.Transition, step: ev.TransitionStep, msg: ev.Message, state: ev.State, errS: ev.Error, rn: ev.RunNumber})
	case *pb.Ev_RunEvent:
		cw.w.add(&rec{kind: "run-ev", name: ev.Transition, msg: ev.TransitionStatus.String(), state: ev.State, rn: ev.RunNumber, errS: ev.Error})
	}
}

// ---- moments ----

func moments(ev, src string) []string {
	return []string{"before_" + ev, "leave_" + src, "enter_" + graph[ev].dst, "after_" + ev}
}

var weights = []int{-200, -50, -1, 0, 1, 50, 200}

func trigExpr(moment string, w int) string {
	if w == 0 {
		return moment
	}
	return fmt.Sprintf("%s%+d", moment, w)
}

func parseExpr(e string) (string, int) {
	i := strings.LastIndexAny(e, "+-")
	if i <= 0 {
		return e, 0
	}
	n, err := strconv.Atoi(e[i:])
	if err != nil {
		return e, 0
	}
	return e[:i], n
}

func body(c *hk.Ctx) {
	prop := os.Getenv("SIM_PROP")
	if prop == "" {
		prop = "C01"
	}
	c.Property = prop
	w := &world{c: c, hooks: map[string]*hookSpec{}, group: map[string]int{}, groupN: map[string]int{}}
	cur = w
	sc := &scenario{}
	c.Scenario = sc

	// process-wide singletons: reset for this run
	logrus.SetOutput(io.Discard)
	logrus.SetLevel(logrus.PanicLevel)
	viper.Reset()
	viper.Set("integrationPlugins", []string{"sp"})
	viper.Set("spEndpoint", "sim")
	integration.Reset()
	integration.RegisterPlugin("sp", "spEndpoint", func(string) integration.Plugin { return plugin{} })
	store := simconsul.NewStore()
	src, err := cfgbackend.NewConsulSourceForVerif("sim-consul:8500", store.HTTPClient("core"))
	if err != nil {
		panic(err)
	}
	apricot.SetInstanceForVerif(local.NewServiceWithSourceForVerif(src))
	the.ResetEventWritersForVerif()
	for _, t := range []topic.Topic{topic.Environment, topic.Run, topic.Call, topic.Role, topic.Task, topic.Root, topic.IntegratedService} {
		the.SetEventWriterForVerif(t, capWriter{w})
	}

	// ---- workload ----
	sc.Clients = 1 + c.W(3, "clients")
	nReq := 3 + c.W(10, "requests")
	startBias := prop == "C07" || (prop == "C10" && c.W(2, "start-bias") == 1)
	if startBias && sc.Clients < 2 {
		sc.Clients = 2 // racing START_ACTIVITY requests need two operators
	}
	// a plausible path with deviations: mostly the next legal event, sometimes any event
	state := "STANDBY"
	var planned []string
	for i := 0; i < nReq; i++ {
		var ev string
		if startBias && i < 3 {
			ev = []string{"DEPLOY", "CONFIGURE", "START_ACTIVITY"}[i]
		} else if c.W(4, "deviate") == 0 {
			ev = events[c.W(len(events), "any-event")]
		} else {
			var leg []string
			for _, e := range events[:5] {
				if legal(e, state) {
					leg = append(leg, e)
				}
			}
			if len(leg) == 0 {
				ev = events[c.W(len(events), "any-event2")]
			} else {
				ev = leg[c.W(len(leg), "legal-event")]
			}
		}
		r := &reqSpec{Client: c.W(sc.Clients, "client"), Event: ev}
		if c.F(6, "body-fail") == 5 || (startBias && i == 2 && c.F(2, "start-fails") == 1) {
			r.BodyFail = true
		}
		if startBias && i < 2 {
			r.BodyFail = false
		}
		r.BodyMs = []int{0, 0, 20, 3000}[c.W(4, "body-ms")]
		sc.Requests = append(sc.Requests, r)
		planned = append(planned, ev)
		if ev == "START_ACTIVITY" && sc.Clients > 1 && c.W(3, "double-start") != 0 {
			// the same request from a second operator at the same time
			sc.Requests = append(sc.Requests, &reqSpec{Client: (r.Client + 1) % sc.Clients, Event: ev})
		}
		if legal(ev, state) && !r.BodyFail {
			state = graph[ev].dst
		}
		if state == "ERROR" {
			break
		}
	}
	// hooks: sentinels at every moment of every event (weight 0 and -1), plus drawn hooks
	allMoments := map[string]bool{}
	for _, ev := range events {
		for _, s := range graph[ev].src {
			for _, m := range moments(ev, s) {
				allMoments[m] = true
			}
		}
	}
	var momentList []string
	for m := range allMoments {
		momentList = append(momentList, m)
	}
	sort.Strings(momentList)
	addHook := func(h *hookSpec) {
		h.Name = fmt.Sprintf("h%d", len(sc.Hooks))
		sc.Hooks = append(sc.Hooks, h)
	}
	for _, m := range momentList {
		if strings.Contains(m, "START_ACTIVITY") || strings.Contains(m, "STOP_ACTIVITY") {
			addHook(&hookSpec{Trigger: trigExpr(m, -1), Await: trigExpr(m, -1), Sentinel: true})
		}
		addHook(&hookSpec{Trigger: m, Await: m, Sentinel: true})
	}
	// moments that the planned path will reach, in order, for placing interesting hooks
	var reach []string
	st := "STANDBY"
	for _, r := range sc.Requests {
		if legal(r.Event, st) {
			reach = append(reach, moments(r.Event, st)...)
			if !r.BodyFail {
				st = graph[r.Event].dst
			}
		}
	}
	nHooks := c.W(9, "hooks")
	if len(reach) == 0 {
		nHooks = 0
	}
	for i := 0; i < nHooks; i++ {
		ti := c.W(len(reach), "hook-moment")
		h := &hookSpec{Trigger: trigExpr(reach[ti], weights[c.W(len(weights), "hook-weight")])}
		switch c.W(5, "await-kind") {
		case 0, 1, 2:
			h.Await = h.Trigger
		case 3: // a later point (same or later transition)
			ai := ti + c.W(len(reach)-ti, "await-later")
			aw := weights[c.W(len(weights), "await-weight")]
			_, tw := parseExpr(h.Trigger)
			if reach[ai] == reach[ti] && aw < tw {
				aw = tw
			}
			h.Await = trigExpr(reach[ai], aw)
		case 4: // never reached in this run
			h.Await = "after_RECOVER"
		}
		h.Critical = c.W(2, "hook-critical") == 1
		h.Fail = c.F(4, "hook-fail") == 3
		h.DelayMs = []int{0, 0, 10, 2000}[c.W(4, "hook-delay")]
		addHook(h)
	}
	if prop == "C09" && len(reach) > 0 && c.W(3, "mixed-criticality-failures") == 2 {
		// a critical and a non-critical hook failing at the same moment and weight, and a
		// healthy hook later in the same phase (which must not run when the moment can cancel)
		ti := c.W(len(reach), "mixed-moment")
		wi := c.W(len(weights)-1, "mixed-weight")
		if (weights[wi] < 0) != (weights[wi+1] < 0) && wi > 0 {
			wi-- // keep both weights on the same side of zero
		}
		tr := trigExpr(reach[ti], weights[wi])
		addHook(&hookSpec{Trigger: tr, Await: tr, Critical: true, Fail: true})
		addHook(&hookSpec{Trigger: tr, Await: tr, Critical: false, Fail: true})
		later := trigExpr(reach[ti], weights[wi+1])
		addHook(&hookSpec{Trigger: later, Await: later})
	}
	if prop == "C10" {
		// the end of a run that "fails" after the point of no return: a critical hook failing at
		// enter_CONFIGURED / after_STOP_ACTIVITY (the run is over all the same)
		stopReached := false
		for _, m := range reach {
			if m == "after_STOP_ACTIVITY" {
				stopReached = true
			}
		}
		if stopReached && c.W(3, "late-critical-failure-at-stop") == 2 {
			m := []string{"after_STOP_ACTIVITY", "enter_CONFIGURED"}[c.W(2, "where")]
			tr := trigExpr(m, []int{0, 1, 50}[c.W(3, "late-weight")])
			addHook(&hookSpec{Trigger: tr, Await: tr, Critical: true, Fail: true})
		}
	}
	for _, h := range sc.Hooks {
		w.groupN[h.Trigger]++
	}
	// run number faults (C07 clause: no number => START_ACTIVITY fails, nothing is reused)
	switch c.F(6, "rn-fault") {
	case 4:
		sc.RNFault = "cas-refused"
	case 5:
		sc.RNFault = "consul-down"
	}
	startSeen := 0
	store.Policy = func(client, method, key, query string) string {
		if !strings.Contains(key, "run_number") {
			return simconsul.FaultNone
		}
		if method == "GET" {
			startSeen++
		}
		if startSeen == 2 || sc.RNFault == "" { // the fault hits the second START of the run (or the first if only one)
			switch sc.RNFault {
			case "consul-down":
				c.Count("fault.consul_down_at_start")
				w.rnFaultSeqs = append(w.rnFaultSeqs, w.seq)
				return simconsul.Fault500
			case "cas-refused":
				if method == "PUT" {
					c.Count("fault.cas_refused_at_start")
					w.rnFaultSeqs = append(w.rnFaultSeqs, w.seq)
					store.Bump(key, 1) // another core advanced the counter in between
				}
			}
		}
		return simconsul.FaultNone
	}

	// ---- the system under test ----
	envId := uid.ID("2rE9AV3m1HL") // a fixed id: the process-wide generator keeps state across runs
	env, err := environment.NewEnvironmentForVerif(map[string]string{}, envId,
		func(parent workflow.Updatable) (workflow.Role, error) {
			var roles []workflow.Role
			for _, h := range sc.Hooks {
				roles = append(roles, workflow.NewCallRole(h.Name,
					task.Traits{Trigger: h.Trigger, Await: h.Await, Timeout: "30s", Critical: h.Critical}, "sp.Probe()", ""))
			}
			root := workflow.NewAggregatorRole("root", roles)
			workflow.LinkChildrenToParents(root)
			workflow.SetParentForVerif(root, parent)
			for _, h := range sc.Hooks {
				w.hooks["root."+h.Name] = h
			}
			return root, nil
		},
		func(hooks task.Tasks) error { return nil })
	if err != nil {
		c.Violate("setup", "new-environment", "%v", err)
		return
	}

	var wg simsync.WaitGroup
	for cl := 0; cl < sc.Clients; cl++ {
		cl := cl
		wg.Add(1)
		c.S.Go(fmt.Sprintf("client%d", cl), func() {
			defer wg.Done()
			for _, r := range sc.Requests {
				if r.Client != cl {
					continue
				}
				r := r
				if env.CurrentState() == "ERROR" && c.W(4, "request-in-error") != 0 {
					continue // operators stop sending requests to an environment in ERROR (mostly)
				}
				r.invoke = w.add(&rec{kind: "invoke", name: r.Event}).seq
				err := env.TryTransition(environment.NewTransitionForVerif(r.Event, func(e *environment.Environment) error {
					w.add(&rec{kind: "body-start", name: r.Event})
					if r.BodyMs > 0 {
						simrt.Sleep(time.Duration(r.BodyMs) * time.Millisecond)
					}
					w.add(&rec{kind: "body-end", name: r.Event})
					if r.BodyFail {
						w.c.Count("fault.task_transition_fails")
						return fmt.Errorf("tasks failed to %s", r.Event)
					}
					return nil
				}))
				tc := &tcall{event: r.Event, inv: r.invoke, ret: w.add(&rec{kind: "call-return", name: r.Event}).seq}
				if err != nil {
					tc.errS = err.Error()
				}
				w.mu.Lock()
				w.calls = append(w.calls, tc)
				w.mu.Unlock()
				if err != nil {
					r.Err = err.Error()
					gc := &tcall{event: "GO_ERROR", inv: w.add(&rec{kind: "call-invoke", name: "GO_ERROR"}).seq}
					// what every caller in the core does after a failed transition (API rule):
					// GO_ERROR, forced if refused
					goErr := env.TryTransition(environment.NewTransitionForVerif("GO_ERROR", func(e *environment.Environment) error {
						w.add(&rec{kind: "body-start", name: "GO_ERROR"})
						w.add(&rec{kind: "body-end", name: "GO_ERROR"})
						return nil
					}))
					gc.ret = w.add(&rec{kind: "call-return", name: "GO_ERROR"}).seq
					if goErr != nil {
						gc.errS = goErr.Error()
					}
					w.mu.Lock()
					w.calls = append(w.calls, gc)
					w.mu.Unlock()
					if goErr != nil {
						c.Count("probe.forced_error_state")
						w.add(&rec{kind: "force-begin", state: "ERROR"})
						env.ForceStateForVerif("ERROR")
						w.add(&rec{kind: "force-end", state: "ERROR"})
					}
				}
				rr := w.add(&rec{kind: "return", name: r.Event, errS: r.Err})
				r.ret = rr.seq
				simrt.Yield()
			}
		})
	}
	// observer polling what API clients would be shown
	stopPoll := false
	c.S.Go("observer", func() {
		for !stopPoll {
			w.add(&rec{kind: "poll", state: env.CurrentState(), name: env.CurrentTransition()})
			simrt.Sleep(time.Duration(1+c.W(400, "poll-ms")) * time.Millisecond)
		}
	})
	wg.Wait()
	simrt.Sleep(5 * time.Second) // let calls that nobody awaits run to completion
	stopPoll = true
	sc.Final = env.CurrentState()
	w.add(&rec{kind: "end", state: sc.Final})
	c.NonTrivial = len(sc.Requests) > 1
	check(c, w, sc, env, prop)
}

// bracket = one execution of TryTransition as witnessed by the events it publishes while
// holding the environment's transition lock
type bracket struct {
	event      string
	start, end int
	outcome    string // completed | error | impossible
	state      string // state published with the closing event
	startState string // state published with the "transition starting" event
	errS       string
	recs       []*rec
	momentSeq  map[string]int // moment -> seq of its "transition step starting" event
}

type expStart struct {
	h      *hookSpec
	minSeq int
	br     *bracket
	moment string
	weight int
	// filled by matching
	start, end int
	vars       map[string]string
	awaitedIn  *bracket // bracket in which the reference collects it (nil: never)
	awaitGroup int
}

type group struct {
	moment string
	weight int
	starts []*expStart
	awaits []*expStart
}

func check(c *hk.Ctx, w *world, sc *scenario, env *environment.Environment, prop string) {
	for _, r := range w.recs {
		if r.kind != "poll" {
			c.Logf("rec %d t=%v %s name=%s step=%s msg=%q state=%s err=%q rn=%d vars=%v", r.seq, r.at, r.kind, r.name, r.step, r.msg, r.state, r.errS, r.rn, r.vars)
		}
	}
	viol := func(p, oracle, sig, format string, a ...any) {
		if p == prop {
			c.Violate(oracle, sig, format, a...)
		}
	}
	// ---- pass A: brackets, mutual exclusion ----
	var brs []*bracket
	var open *bracket
	type forceIv struct{ begin, end int }
	var forces []forceIv // intervals during which a caller was forcing ERROR (API rule fallback)
	for _, r := range w.recs {
		if r.kind == "force-begin" {
			forces = append(forces, forceIv{begin: r.seq, end: 1 << 30})
		}
		if r.kind == "force-end" {
			for i := range forces {
				if forces[i].end == 1<<30 {
					forces[i].end = r.seq
					break
				}
			}
		}
	}
	// forcedBetween: a force completed in (lo,hi): the state is ERROR from then on
	forcedBetween := func(lo, hi int) bool {
		for _, f := range forces {
			if f.end > lo && f.end < hi {
				return true
			}
		}
		return false
	}
	// forceOverlaps: a force was in progress at some point of [lo,hi]: the state seen is ambiguous
	forceOverlaps := func(lo, hi int) bool {
		for _, f := range forces {
			if f.begin < hi && f.end > lo {
				return true
			}
		}
		return false
	}
	for _, r := range w.recs {
		if r.kind == "ev" && r.msg == "transition starting" {
			if open != nil {
				viol("C01", "mutual-exclusion", "overlapping:"+open.event+"+"+r.name, "transition %s started (seq %d) while %s (started at seq %d) was still in progress", r.name, r.seq, open.event, open.start)
				return
			}
			open = &bracket{event: r.name, start: r.seq, startState: r.state, momentSeq: map[string]int{}}
			continue
		}
		if r.kind == "ev" && (r.msg == "transition completed successfully" || r.msg == "transition error" || r.msg == "transition impossible") {
			if open == nil || open.event != r.name {
				viol("C01", "mutual-exclusion", "unbalanced", "transition end event for %s without matching start", r.name)
				return
			}
			open.end, open.state, open.errS = r.seq, r.state, r.errS
			open.outcome = map[string]string{"transition completed successfully": "completed", "transition error": "error", "transition impossible": "impossible"}[r.msg]
			brs = append(brs, open)
			open = nil
			continue
		}
		if open != nil {
			open.recs = append(open.recs, r)
			if r.kind == "ev" && r.msg == "transition step starting" {
				if _, dup := open.momentSeq[r.step]; !dup {
					open.momentSeq[r.step] = r.seq
				}
			}
		} else if r.kind == "body-start" {
			viol("C01", "mutual-exclusion", "body-outside-transition", "task transition of %s (seq %d) ran outside any transition", r.name, r.seq)
		}
	}
	if open != nil {
		viol("C01", "liveness", "transition-never-ended", "transition %s never ended", open.event)
		return
	}

	// ---- every request is serialised: a call that was refused without ever taking its turn (no
	// transition of its own between its invocation and its return) can only be right if the event is
	// illegal in a state the environment was left in during that interval ----
	{
		taken := map[*bracket]bool{}
		calls := append([]*tcall(nil), w.calls...)
		sort.Slice(calls, func(i, j int) bool { return calls[i].ret < calls[j].ret })
		for _, tc := range calls {
			var own *bracket
			for _, b := range brs {
				if !taken[b] && b.event == tc.event && b.start > tc.inv && b.end < tc.ret {
					own = b
					break
				}
			}
			if own != nil {
				taken[own] = true
				continue
			}
			if tc.errS == "" {
				viol("C01", "serialised", "success-without-transition", "%s returned success (seq %d..%d) but the environment published no transition for it", tc.event, tc.inv, tc.ret)
				continue
			}
			// states the environment was left in during [inv, ret]: after the last transition that ended
			// before inv, and after every transition that ended inside the interval
			states := []string{"STANDBY"}
			for _, b := range brs {
				if b.end < tc.inv {
					states = []string{b.state}
				}
			}
			for _, b := range brs {
				if b.end > tc.inv && b.end < tc.ret {
					states = append(states, b.state)
				}
			}
			explained := forceOverlaps(0, tc.ret) // a forced ERROR before or during the call: ERROR may be what it saw
			for _, st := range states {
				if !legal(tc.event, st) {
					explained = true
				}
			}
			if !explained {
				viol("C01", "serialised", "legal-request-refused-out-of-turn:"+tc.event, "%s (seq %d..%d) was refused with %q without a transition of its own, although it is legal in every state the environment was left in meanwhile (%v): it did not wait for its turn", tc.event, tc.inv, tc.ret, tc.errS, states)
			}
		}
	}

	// ---- pass B: reference execution of the brackets in serialisation order ----
	hooksByMoment := map[string][]*hookSpec{}
	for _, h := range sc.Hooks {
		hooksByMoment[momentOf(h)] = append(hooksByMoment[momentOf(h)], h)
	}
	pending := map[string][]*expStart{} // await expr -> started, not yet collected
	var allStarts []*expStart
	state := "STANDBY"
	type brInfo struct {
		legal               bool
		groups              []group
		expectErr, runBody  bool
		stateAfter          string
		rnAttempt, rnFailed bool
		bodyAfterGroup      int
	}
	infos := make([]*brInfo, len(brs))
	prevEnd, prevStart := 0, 0
	for bi, b := range brs {
		if forcedBetween(prevEnd, b.start) {
			state = "ERROR"
		} else if forcedBetween(prevStart, prevEnd+1) && b.startState != "" {
			// a forced ERROR was completed while the previous request was being handled (forcing is
			// not serialised with transitions): whichever wrote last decides; the state this
			// transition published when it started is taken
			state = b.startState
		}
		prevEnd, prevStart = b.end, b.start
		if forceOverlaps(b.start, b.end) && !legal(b.event, state) != (b.outcome != "completed") {
			// a forced ERROR landed while this request was being serialised: take the state it saw
			if b.outcome == "completed" || len(b.momentSeq) > 0 {
				for _, st := range graph[b.event].src {
					if st != "ERROR" {
						state = st
					}
				}
			} else {
				state = "ERROR"
			}
		}
		inf := &brInfo{legal: legal(b.event, state), stateAfter: state}
		infos[bi] = inf
		c.State(fmt.Sprintf("%s in %s legal=%v", b.event, state, inf.legal))
		if !inf.legal {
			inf.expectErr = true
			state = b.state
			continue
		}
		src, dst := state, graph[b.event].dst
		inf.stateAfter = dst
		type phase struct {
			moment string
			neg    bool
		}
		phases := []phase{{"before_" + b.event, true}, {"before_" + b.event, false}, {"leave_" + src, true}, {"leave_" + src, false},
			{"", false}, {"enter_" + dst, true}, {"enter_" + dst, false}, {"after_" + b.event, true}, {"after_" + b.event, false}}
		cancelled := false
		for pi, ph := range phases {
			if cancelled {
				break
			}
			if ph.moment == "" {
				inf.runBody = true
				inf.bodyAfterGroup = len(inf.groups)
				if strings.Contains(b.errS, "tasks failed to "+b.event) {
					inf.expectErr, cancelled, inf.stateAfter = true, true, src
				}
				continue
			}
			if pi == 1 && b.event == "START_ACTIVITY" {
				// built-in work between the negative and the non-negative before_ hooks: the run number
				inf.rnAttempt = true
				if strings.Contains(b.errS, "cannot write back incremented CAS key") || strings.Contains(b.errS, "Unexpected response code") {
					inf.rnFailed, inf.expectErr, cancelled, inf.stateAfter = true, true, true, src
					break
				}
			}
			wset := map[int]bool{}
			for _, h := range hooksByMoment[ph.moment] {
				if _, hw := parseExpr(h.Trigger); (hw < 0) == ph.neg {
					wset[hw] = true
				}
			}
			for expr, l := range pending {
				if m, aw := parseExpr(expr); m == ph.moment && (aw < 0) == ph.neg && len(l) > 0 {
					wset[aw] = true
				}
			}
			critical := false
			done := map[int]bool{}
			for {
				// next weight in ascending order; calls started in this phase whose await point
				// lies later in the same phase add their await weight to the set
				wt, found := 0, false
				for x := range wset {
					if !done[x] && (!found || x < wt) {
						wt, found = x, true
					}
				}
				if !found {
					break
				}
				done[wt] = true
				g := group{moment: ph.moment, weight: wt}
				for _, h := range hooksByMoment[ph.moment] {
					if _, hw := parseExpr(h.Trigger); hw == wt {
						es := &expStart{h: h, br: b, moment: ph.moment, weight: wt}
						g.starts = append(g.starts, es)
						allStarts = append(allStarts, es)
						pending[h.Await] = append(pending[h.Await], es)
						if am, aw := parseExpr(h.Await); am == ph.moment && (aw < 0) == ph.neg && aw > wt {
							wset[aw] = true
						}
					}
				}
				expr := trigExpr(ph.moment, wt)
				g.awaits = pending[expr]
				delete(pending, expr)
				for _, es := range g.awaits {
					es.awaitedIn, es.awaitGroup = b, len(inf.groups)
					if es.h.Fail && es.h.Critical {
						critical = true
					}
				}
				inf.groups = append(inf.groups, g)
				if critical {
					break
				}
			}
			if critical {
				inf.expectErr = true
				if pi < 4 {
					cancelled, inf.stateAfter = true, src
				}
			}
		}
		state = b.state // follow the implementation; deviations are reported by pass E
	}

	// ---- pass C: match recorded probe starts to expected starts ----
	for _, es := range allStarts {
		ms, ok := es.br.momentSeq[es.moment]
		if !ok {
			viol("C08", "moment-skipped", phaseKind(es.moment), "%s: the %s moment did not take place although nothing cancelled the transition before it (error %q)", es.br.event, es.moment, es.br.errS)
			viol("C09", "moment-skipped", phaseKind(es.moment), "%s: the %s moment did not take place although no critical hook or task failure cancelled the transition before it (error %q)", es.br.event, es.moment, es.br.errS)
			ms = es.br.end
		}
		es.minSeq = ms
	}
	fifo := map[string][]*expStart{}
	for _, es := range allStarts {
		fifo[es.h.Name] = append(fifo[es.h.Name], es)
	}
	byStartSeq := map[int]*expStart{}
	for _, r := range w.recs {
		switch r.kind {
		case "probe-start":
			q := fifo[r.name]
			h := hookByName(sc, r.name)
			if len(q) == 0 {
				viol("C09", "hook-ran-unexpectedly", phaseKind(momentOf(h)), "hook %s (trigger %s) ran at seq %d although its trigger point was not reached (transition cancelled, lower weight failed critically, or request not legal)", r.name, h.Trigger, r.seq)
				viol("C01", "illegal-not-executed", "hook:"+phaseKind(momentOf(h)), "hook %s (trigger %s) ran at seq %d although no legal, uncancelled transition reached its trigger point", r.name, h.Trigger, r.seq)
				viol("C08", "extra-hook", phaseKind(momentOf(h)), "hook %s (trigger %s) ran more often than its trigger point was reached", r.name, h.Trigger)
				continue
			}
			es := q[0]
			fifo[r.name] = q[1:]
			if r.seq < es.minSeq {
				viol("C08", "started-before-trigger", phaseKind(es.moment), "hook %s (trigger %s) started at seq %d, before its trigger moment began (seq %d) in %s", r.name, h.Trigger, r.seq, es.minSeq, es.br.event)
				viol("C09", "hook-ran-unexpectedly", phaseKind(es.moment), "hook %s (trigger %s) ran at seq %d, before/without its trigger point (seq %d)", r.name, h.Trigger, r.seq, es.minSeq)
			}
			es.start, es.vars = r.seq, r.vars
			byStartSeq[r.seq] = es
		case "probe-end":
			if es := byStartSeq[r.inst]; es != nil {
				es.end = r.seq
			}
		}
	}
	for name, q := range fifo {
		for _, es := range q {
			viol("C08", "hook-not-run", phaseKind(es.moment), "%s: hook %s (trigger %s) never ran although its trigger point was reached", es.br.event, name, es.h.Trigger)
			viol("C09", "hook-not-run", phaseKind(es.moment), "%s: hook %s (trigger %s) never ran although nothing before it failed critically (error %q)", es.br.event, name, es.h.Trigger, es.br.errS)
		}
	}

	// ---- pass D: order inside each transition: weights ascending, awaited calls returned ----
	for bi, b := range brs {
		inf := infos[bi]
		if !inf.legal {
			for _, r := range b.recs {
				if r.kind == "body-start" {
					viol("C01", "illegal-not-executed", "body", "%s is not legal in the current state, yet its task transition ran", b.event)
				}
			}
			continue
		}
		var bodyStart, bodyEnd int
		for _, r := range b.recs {
			if r.kind == "body-start" {
				bodyStart = r.seq
			}
			if r.kind == "body-end" {
				bodyEnd = r.seq
			}
		}
		if inf.runBody && bodyStart == 0 {
			viol("C09", "body-skipped", b.event, "%s: the task transition did not run although no critical before_/leave_ hook failed (error %q)", b.event, b.errS)
			viol("C01", "body-skipped", b.event, "%s: legal request whose task transition did not run (error %q)", b.event, b.errS)
		}
		if !inf.runBody && bodyStart != 0 {
			viol("C09", "body-ran-after-cancel", b.event, "%s: the task transition ran although a critical hook had failed at before_/leave_ (error %q)", b.event, b.errS)
			viol("C07", "start-without-number", "body-ran", "START_ACTIVITY ran its task transition although no run number could be obtained")
		}
		barrier := b.start // everything awaited so far has returned by this seq
		for gi, g := range inf.groups {
			if inf.runBody && gi == inf.bodyAfterGroup && bodyStart != 0 {
				if bodyStart < barrier {
					viol("C08", "await", "body-before-awaited-call", "%s: the task transition started (seq %d) before a call awaited at leave_/before_ had returned (seq %d)", b.event, bodyStart, barrier)
				}
				barrier = max(barrier, bodyEnd)
			}
			for _, es := range g.starts {
				if es.start != 0 && es.start < barrier {
					viol("C08", "order", "weight-order:"+phaseKind(g.moment), "%s: hook %s (%s) started at seq %d before everything awaited at lower weights / earlier moments had returned (seq %d)", b.event, es.h.Name, es.h.Trigger, es.start, barrier)
				}
				if bodyStart != 0 && gi >= inf.bodyAfterGroup && es.start != 0 && es.start < bodyEnd {
					viol("C08", "order", "enter-hook-before-tasks", "%s: hook %s (%s) started before the task transition was finished", b.event, es.h.Name, es.h.Trigger)
				}
				if bodyStart != 0 && gi < inf.bodyAfterGroup && es.awaitedIn == b && es.awaitGroup < inf.bodyAfterGroup && es.end > bodyStart {
					viol("C08", "await", "body-before-awaited-call", "%s: call %s awaited at %s had not returned when the task transition started", b.event, es.h.Name, es.h.Await)
				}
			}
			for _, es := range g.awaits {
				if es.start == 0 {
					continue
				}
				if es.end == 0 || es.end > b.end {
					viol("C08", "await", "not-awaited:"+phaseKind(g.moment), "%s: call %s (await %s) had not returned when the transition moved past its await point", b.event, es.h.Name, es.h.Await)
					continue
				}
				barrier = max(barrier, es.end)
			}
		}
	}

	// ---- pass E: outcome and resulting state ----
	state = "STANDBY"
	prevEnd, prevStart = 0, 0
	for bi, b := range brs {
		inf := infos[bi]
		if forcedBetween(prevEnd, b.start) {
			state = "ERROR"
		} else if forcedBetween(prevStart, prevEnd+1) && b.startState != "" {
			state = b.startState // as in pass B: a force completed while the previous request was handled
		}
		forcedDuring := forceOverlaps(b.start, b.end)
		prevEnd, prevStart = b.end, b.start
		if forcedDuring {
			// a forced ERROR raced with this transition: its published state may be ERROR or the
			// regular outcome; nothing is asserted about it here
			c.Count("probe.force_raced_with_transition")
			state = b.state
			continue
		}
		if !inf.legal {
			if b.outcome == "completed" {
				viol("C01", "graph", "illegal-completed:"+b.event+"@"+state, "%s is not legal in %s but completed (published state %s)", b.event, state, b.state)
			}
			if b.state != state {
				viol("C01", "graph", "illegal-changed-state", "%s, illegal in %s, left the environment in %s", b.event, state, b.state)
			}
			state = b.state
			continue
		}
		if inf.expectErr != (b.outcome != "completed") {
			viol("C09", "outcome", fmt.Sprintf("expected-error=%v", inf.expectErr), "%s in %s: expected error=%v, transition reported %s (%q)", b.event, state, inf.expectErr, b.outcome, b.errS)
			viol("C01", "outcome", fmt.Sprintf("expected-error=%v", inf.expectErr), "%s in %s: expected error=%v, transition reported %s (%q)", b.event, state, inf.expectErr, b.outcome, b.errS)
		}
		if b.state != inf.stateAfter {
			viol("C09", "state-after", fmt.Sprintf("%s:want=%s,got=%s", b.event, inf.stateAfter, b.state), "%s in %s: the environment is in %s afterwards, expected %s (error %q)", b.event, state, b.state, inf.stateAfter, b.errS)
			viol("C01", "graph", fmt.Sprintf("%s:%s->%s", b.event, state, b.state), "%s in %s left the environment in %s; the documented graph allows %s or (on failure) %s", b.event, state, b.state, graph[b.event].dst, state)
		}
		if inf.rnFailed {
			c.Count("probe.start_without_run_number")
			for _, es := range allStarts {
				if es.br == b && es.start != 0 && es.vars["run_number"] != "" && !(es.moment == "before_START_ACTIVITY" && es.weight < 0) {
					viol("C07", "start-without-number", "number-visible", "no run number could be obtained, yet hook %s sees run number %s", es.h.Name, es.vars["run_number"])
				}
			}
		}
		state = b.state
	}
	// critical hook failures must be named in the error the caller gets
	for bi, b := range brs {
		inf := infos[bi]
		for gi, g := range inf.groups {
			_ = gi
			for _, es := range g.awaits {
				if es.h.Fail && es.h.Critical && es.start != 0 && b.outcome != "completed" && !strings.Contains(b.errS, "critical hook") && !strings.Contains(b.errS, "probe "+es.h.Name) {
					viol("C09", "error-names-failure", phaseKind(g.moment), "%s: critical hook %s failed at %s but the error returned is %q", b.event, es.h.Name, es.h.Await, b.errS)
				}
			}
		}
	}

	// ---- polls: only documented states are ever shown ----
	for _, r := range w.recs {
		if r.kind != "poll" && r.kind != "end" {
			continue
		}
		switch r.state {
		case "STANDBY", "DEPLOYED", "CONFIGURED", "RUNNING", "ERROR", "DONE":
		default:
			viol("C01", "graph", "undocumented-state:"+r.state, "an observer saw the undocumented state %q", r.state)
		}
	}
	for _, r := range sc.Requests {
		if r.invoke != 0 && r.ret == 0 {
			viol("C01", "liveness", "request-never-returned", "%s request never returned", r.Event)
		}
	}
	// every failed request leaves the environment in ERROR (clients follow the API rule)
	failed := false
	for _, r := range sc.Requests {
		if r.Err != "" {
			failed = true
		}
	}
	if failed && sc.Final != "ERROR" && len(forces) == 0 {
		viol("C01", "graph", "failed-request-not-in-error:"+sc.Final, "a request failed, the API rule (GO_ERROR, forced if refused) was applied, yet the environment ended in %s", sc.Final)
	}
	// calls pending at the end = calls whose await point was not reached
	pc := 0
	for _, l := range pending {
		pc += len(l)
	}
	if n := env.PendingAwaitCallsForVerif(); n != pc {
		viol("C08", "collected-once", fmt.Sprintf("pending=%d,want=%d", min(n, 9), min(pc, 9)), "%d calls are still registered as started-and-not-collected, the reference expects %d", n, pc)
	}
	checkRuns(c, viol, w, sc, brs, allStarts, env)
	c.State(fmt.Sprintf("brackets=%d final=%s", len(brs), state))
}

// checkRuns: C10 - run number and run timestamps as seen by the hooks.
func checkRuns(c *hk.Ctx, viol func(p, oracle, sig, format string, a ...any), w *world, sc *scenario, brs []*bracket, starts []*expStart, env *environment.Environment) {
	sort.Slice(starts, func(i, j int) bool { return starts[i].start < starts[j].start })
	type run struct {
		id    string // run_number/start
		seen  map[string]string
		ended bool
	}
	var cur *run
	var lastOfRun *bracket // the STOP_ACTIVITY / GO_ERROR transition that ends the current run
	endVars := []string{"run_end_time_ms", "run_end_completion_time_ms"}
	var prevEnd map[string]string       // end timestamps the hooks saw in the last finished run
	var prevEndBr *bracket              // the transition that ended it
	noNumber := func(b *bracket) bool { // a START_ACTIVITY whose run number allocation was made to fail
		if b.state == "RUNNING" {
			return false
		}
		for _, q := range w.rnFaultSeqs {
			if q >= b.start && q <= b.end {
				return true
			}
		}
		return false
	}
	runs := 0
	for _, es := range starts {
		if es.start == 0 {
			continue
		}
		if es.h.Await != es.h.Trigger {
			// a call awaited later runs at an unspecified time after its trigger point (possibly
			// while a later transition is under way): it says nothing about where a run ends
			continue
		}
		if lastOfRun != nil && es.br != lastOfRun {
			if cur != nil {
				prevEnd, prevEndBr = map[string]string{}, lastOfRun
				for _, k := range endVars {
					prevEnd[k] = cur.seen[k]
				}
			}
			cur, lastOfRun = nil, nil
		}
		v := es.vars
		rn, st := v["run_number"], v["run_start_time_ms"]
		inStart := es.br.event == "START_ACTIVITY"
		switch {
		case inStart && es.moment == "before_START_ACTIVITY" && es.weight < 0:
			// a START_ACTIVITY cancelled after its number was drawn leaves that number behind (it
			// never became a run): only numbers of real previous runs are asserted to be gone
			cancelledStartBefore := false
			for _, b := range brs {
				if b.end < es.br.start && b.event == "START_ACTIVITY" && b.state != "RUNNING" {
					cancelledStartBefore = true
				}
				if b.end < es.br.start && b.event == "STOP_ACTIVITY" && b.outcome == "completed" {
					cancelledStartBefore = false
				}
			}
			if rn != "" && !cancelledStartBefore {
				viol("C10", "run-number-visibility", "visible-before-start", "hook %s at before_START_ACTIVITY%+d sees run number %s: the number of the previous run is still visible (or the new one is set too early)", es.h.Name, es.weight, rn)
			}
			cur = nil
		case inStart && es.moment == "before_START_ACTIVITY" && es.weight >= 0 && cur == nil:
			if rn == "" || st == "" {
				viol("C10", "run-number-visibility", "missing-at-start", "hook %s at before_START_ACTIVITY%+d sees run_number=%q run_start_time_ms=%q", es.h.Name, es.weight, rn, st)
			}
			cur = &run{id: rn + "/" + st, seen: map[string]string{}}
			runs++
			if v["run_end_time_ms"] != "" || v["run_end_completion_time_ms"] != "" || v["run_start_completion_time_ms"] != "" {
				viol("C10", "stale-timestamps", "previous-run-visible", "hook %s at the start of run %s sees timestamps of a previous run: %v", es.h.Name, rn, v)
			}
		}
		if cur != nil && !cur.ended && es.awaitedIn != nil {
			if cur.id != rn+"/"+st {
				viol("C10", "run-number-stable", "changed-during-run", "hook %s at %s (%s) sees run %s/%s, the run started as %s", es.h.Name, es.moment, es.br.event, rn, st, cur.id)
			}
			for _, k := range runVars[2:] {
				if old, ok := cur.seen[k]; ok && old != "" && v[k] != old {
					viol("C10", "timestamp-once", k, "%s was %s earlier in run %s and is %q now (hook %s at %s): set more than once", k, old, cur.id, v[k], es.h.Name, es.moment)
				}
				if v[k] != "" {
					cur.seen[k] = v[k]
				}
			}
		}
		// between two runs nothing writes the end timestamps: once a run is over they keep their
		// values until the next START_ACTIVITY that gets a run number (one that failed to get a
		// number began no run, and the GO_ERROR after it ends none)
		if cur == nil && prevEnd != nil && es.awaitedIn != nil {
			noNewRun := true
			for _, b := range brs {
				if b.event == "START_ACTIVITY" && b.start > prevEndBr.end && b.start <= es.br.start && !noNumber(b) {
					noNewRun = false
				}
			}
			if noNewRun {
				for _, k := range endVars {
					if prevEnd[k] != "" && v[k] != prevEnd[k] {
						viol("C10", "timestamp-once", "outside-run:"+k, "%s of the finished run was %s and is %q now, seen by hook %s at %s (%s) although no run began in between (a START_ACTIVITY that got no run number does not begin one): set more than once", k, prevEnd[k], v[k], es.h.Name, es.moment, es.br.event)
					}
				}
				c.Count("probe.end_timestamps_checked_between_runs")
			}
		}
		cancelledStart := false
		for _, b := range brs {
			if b.end < es.br.start && b.event == "START_ACTIVITY" && b.state != "RUNNING" {
				cancelledStart = true
			}
			if b.end < es.br.start && b.event == "STOP_ACTIVITY" && b.outcome == "completed" {
				cancelledStart = false
			}
		}
		if cur == nil && !inStart && rn != "" && es.awaitedIn != nil && !cancelledStart {
			viol("C10", "run-number-visibility", "visible-outside-run", "hook %s at %s (%s) sees run number %s although no run is active", es.h.Name, es.moment, es.br.event, rn)
		}
		get := func(k string) int64 { n, _ := strconv.ParseInt(v[k], 10, 64); return n }
		s, s2, e, e2 := get("run_start_time_ms"), get("run_start_completion_time_ms"), get("run_end_time_ms"), get("run_end_completion_time_ms")
		if (s2 != 0 && s2 < s) || (e != 0 && s2 != 0 && e < s2) || (e != 0 && e < s) || (e2 != 0 && e2 < e) {
			viol("C10", "timestamp-order", "out-of-order", "hook %s at %s sees run timestamps out of order: start=%d start-completion=%d end=%d end-completion=%d", es.h.Name, es.moment, s, s2, e, e2)
		}
		// the run is over once the STOP_ACTIVITY (or GO_ERROR) transition that ends it is over
		if cur != nil && (es.br.event == "STOP_ACTIVITY" || es.br.event == "GO_ERROR") && es.br.state != "RUNNING" {
			lastOfRun = es.br
		}
	}
	if runs > 0 {
		c.Count("probe.runs_observed")
	}
	// C07: every START_ACTIVITY attempt that gets as far as its non-negative before_ hooks shows a
	// number larger than that of every earlier attempt
	lastRN, lastBr := uint64(0), (*bracket)(nil)
	for _, es := range starts {
		if es.start == 0 || es.h.Await != es.h.Trigger || es.br.event != "START_ACTIVITY" || es.moment != "before_START_ACTIVITY" || es.weight < 0 || es.br == lastBr {
			continue
		}
		n, _ := strconv.ParseUint(es.vars["run_number"], 10, 32)
		if lastBr != nil && n <= lastRN {
			viol("C07", "increasing", "start-reuses-number", "START_ACTIVITY attempt got run number %d, an earlier attempt of this environment had %d", n, lastRN)
		}
		lastRN, lastBr = n, es.br
	}
	// however the last run ended, both end timestamps are set
	if runs > 0 && sc.Final != "RUNNING" {
		uv := env.Workflow().GetUserVars()
		e1, _ := uv.Get("run_end_time_ms")
		e2, _ := uv.Get("run_end_completion_time_ms")
		s1, _ := uv.Get("run_start_time_ms")
		started := false
		for _, b := range brs {
			if b.event == "START_ACTIVITY" && b.state == "RUNNING" {
				started = true
			}
		}
		how := "transition"
		goErrOK := false
		for _, b := range brs {
			if b.event == "GO_ERROR" && b.outcome == "completed" {
				goErrOK = true
			}
		}
		if sc.Final == "ERROR" && !goErrOK {
			how = "forced-error-after-refused-GO_ERROR"
		}
		if started && (e1 == "" || e2 == "") {
			sig := fmt.Sprintf("%s:end=%v,completion=%v", how, e1 != "", e2 != "")
			if how != "transition" {
				sig = how
			}
			viol("C10", "end-timestamps", sig, "the run started at %s is over (environment in %s) but run_end_time_ms=%q run_end_completion_time_ms=%q", s1, sc.Final, e1, e2)
		}
	}
}

func hookByName(sc *scenario, name string) *hookSpec {
	for _, h := range sc.Hooks {
		if h.Name == name {
			return h
		}
	}
	return &hookSpec{}
}

func momentOf(h *hookSpec) string { m, _ := parseExpr(h.Trigger); return m }

func phaseKind(moment string) string {
	if i := strings.Index(moment, "_"); i > 0 {
		return moment[:i]
	}
	return moment
}

var H = &hk.Harness{
	Name: "henv", Property: "C01", Body: body,
	MaxSteps: 400000, MaxSim: 6 * time.Hour, WarpTo2026: true, IdleLimit: 30 * time.Minute,
	Post: func(c *hk.Ctx, res simrt.Result) {
		if res.Reason != simrt.StopRequested && !c.Violated() && c.Property == "C07" {
			c.Count("probe.hang_not_a_run_number_matter") // decided by the C01 check
			return
		}
		if res.Reason != simrt.StopRequested && !c.Violated() {
			sig := "hang:" + res.Reason
			bl := strings.Join(res.Blocked, " ")
			if strings.Contains(bl, "fsm.(*FSM).SetState") {
				sig = "deadlock:forced-state-vs-transition"
			}
			c.Violate("liveness", sig, "run ended with %s after %v: a request never returned; blocked: %v", res.Reason, res.SimTime, res.Blocked)
		}
	},
}

func TestSim(t *testing.T) {
	if p := os.Getenv("SIM_PROP"); p != "" {
		H.Property = p
	}
	if n, _ := strconv.Atoi(os.Getenv("VERIF_START_STALL")); n > 0 {
		H.StartStallDen = n // exploratory knob, off in the registered checks (DESIGN 12.10)
	}
	hk.Main(t, H)
}
