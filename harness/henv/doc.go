package henv
