package htree
