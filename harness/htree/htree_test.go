package htree

import (
	"fmt"
	"strings"
	"testing"
	"time"

	"github.com/AliceO2Group/Control/common/event"
	"github.com/AliceO2Group/Control/common/gera"
	"github.com/AliceO2Group/Control/common/utils/uid"
	"github.com/AliceO2Group/Control/core/task"
	"github.com/AliceO2Group/Control/core/task/sm"
	"github.com/AliceO2Group/Control/core/workflow"

	"simrt"
	"simrt/simsync"
	"verif/hk"
)

// H-tree: the real role tree (aggregator / include / task / call roles, SafeState, SafeStatus,
// ParentAdapter) updated by 1-4 concurrent updaters under the simrt scheduler; after every
// round (quiescence, no update in flight) every node is compared with a reference fold written
// from the property statement.

type node struct {
	Kind     string  `json:"kind"` // agg, include, task, call
	Critical bool    `json:"critical,omitempty"`
	Kids     []*node `json:"kids,omitempty"`
	role     workflow.Role
	name     string
	// reference leaf values (what was last applied)
	st     sm.State
	status task.Status
}

type update struct {
	Leaf   int    `json:"leaf"`
	State  string `json:"state,omitempty"`
	Status string `json:"status,omitempty"`
}

type scenario struct {
	Tree     *node      `json:"tree"`
	Leaves   int        `json:"leaves"`
	Updaters int        `json:"updaters"`
	Rounds   [][]update `json:"rounds"` // per round: updates in generation order (applied by leaf owner)
	SameLeaf bool       `json:"same_leaf_concurrency"`
}

var states = []sm.State{sm.STANDBY, sm.CONFIGURED, sm.RUNNING, sm.ERROR, sm.DONE}
var statuses = []task.Status{task.INACTIVE, task.PARTIAL, task.ACTIVE, task.UNDEPLOYABLE}

func gen(c *hk.Ctx, depth int, cnt *int, leaves *[]*node) *node {
	kind := 0
	if depth >= 3 {
		kind = 2 + c.W(2, "leaf-kind")
	} else if depth > 0 {
		kind = c.W(4, "kind")
	} else {
		kind = 0
	}
	*cnt++
	n := &node{name: fmt.Sprintf("n%d", *cnt)}
	switch kind {
	case 0, 1:
		n.Kind = []string{"agg", "include"}[kind]
		k := 1 + c.W(4, "fanout")
		if depth == 0 && k < 2 {
			k = 2
		}
		var roles []workflow.Role
		for i := 0; i < k; i++ {
			ch := gen(c, depth+1, cnt, leaves)
			n.Kids = append(n.Kids, ch)
			roles = append(roles, ch.role)
		}
		if kind == 0 {
			n.role = workflow.NewAggregatorRole(n.name, roles)
		} else {
			n.role = workflow.NewIncludeRoleForVerif(n.name, roles)
		}
	case 2:
		n.Kind = "task"
		n.Critical = c.W(3, "critical") != 0
		n.role = workflow.NewTaskRoleForVerif(n.name, task.Traits{Critical: n.Critical})
		*leaves = append(*leaves, n)
	case 3:
		n.Kind = "call"
		n.Critical = c.W(3, "critical") != 0
		n.role = workflow.NewCallRole(n.name, task.Traits{Critical: n.Critical, Trigger: "before_CONFIGURE", Await: "before_CONFIGURE", Timeout: "1s"}, "testplugin.Noop()", "")
		*leaves = append(*leaves, n)
	}
	return n
}

// reference fold -------------------------------------------------------------------------------

// refState: (value, hasOpinion)
func refState(n *node) (sm.State, bool) {
	if len(n.Kids) == 0 && (n.Kind == "task" || n.Kind == "call") {
		if !n.Critical {
			return 0, false
		}
		return n.st, true
	}
	var vals []sm.State
	for _, k := range n.Kids {
		if v, ok := refState(k); ok {
			vals = append(vals, v)
		}
	}
	if len(vals) == 0 {
		return 0, false
	}
	same := true
	for _, v := range vals {
		if v == sm.ERROR {
			return sm.ERROR, true
		}
		if v != vals[0] {
			same = false
		}
	}
	if same {
		return vals[0], true
	}
	return sm.MIXED, true
}

func refStatus(n *node) task.Status {
	if len(n.Kids) == 0 {
		return n.status
	}
	allA, allI, anyU := true, true, false
	for _, k := range n.Kids {
		switch refStatus(k) {
		case task.ACTIVE:
			allI = false
		case task.INACTIVE:
			allA = false
		case task.UNDEPLOYABLE:
			anyU = true
			allA, allI = false, false
		default:
			allA, allI = false, false
		}
	}
	switch {
	case anyU:
		return task.UNDEPLOYABLE
	case allA:
		return task.ACTIVE
	case allI:
		return task.INACTIVE
	}
	return task.PARTIAL
}

func anyCriticalError(n *node) bool {
	if len(n.Kids) == 0 {
		return n.Critical && n.st == sm.ERROR
	}
	for _, k := range n.Kids {
		if anyCriticalError(k) {
			return true
		}
	}
	return false
}

func shape(n *node) string {
	if len(n.Kids) == 0 {
		if n.Critical {
			return strings.ToUpper(n.Kind[:1])
		}
		return n.Kind[:1]
	}
	s := "("
	for _, k := range n.Kids {
		s += shape(k)
	}
	return s + ")"
}

func body(c *hk.Ctx) {
	sc := &scenario{}
	c.Scenario = sc
	cnt := 0
	var leaves []*node
	root := gen(c, 0, &cnt, &leaves)
	sc.Tree = root
	sc.Leaves = len(leaves)
	workflow.LinkChildrenToParents(root.role)

	envId := uid.ID("2rE9AV3m1HL") // a fixed id: the process-wide generator keeps state across runs
	var notifMu simsync.Mutex
	stateCh := make(chan sm.State, 100000)
	statusCh := make(chan task.Status, 100000)
	pa := workflow.NewParentAdapter(
		func() uid.ID { return envId },
		func() uint32 { return 0 },
		func() gera.Map[string, string] { return gera.MakeMap[string, string]() },
		func() gera.Map[string, string] { return gera.MakeMap[string, string]() },
		func() gera.Map[string, string] { return gera.MakeMap[string, string]() },
		func(event.Event) {},
	)
	pa.SubscribeToStateChange("verif", stateCh)
	pa.SubscribeToStatusChange("verif", statusCh)
	workflow.SetParentForVerif(root.role, pa)
	_ = notifMu

	sc.Updaters = 1 + c.W(4, "updaters")
	sc.SameLeaf = false
	nRounds := 2 + c.W(3, "rounds")
	for r := 0; r < nRounds; r++ {
		duel := r == nRounds-1 // last round: 2-3 goroutines, one update each, nothing afterwards to repair a lost update
		// generate this round's updates; round 0 starts with a status for every leaf (deployment)
		per := make([][]update, sc.Updaters)
		owner := func(leaf int) int { return leaf % sc.Updaters }
		var all []update
		if r == 0 {
			for i := range leaves {
				u := update{Leaf: i, Status: statuses[c.W(len(statuses), "init-status")].String()}
				all = append(all, u)
			}
		}
		nUp := c.W(3*len(leaves)+1, "updates")
		var duelLeaves []int
		if duel {
			nUp = 2 + c.W(2, "duellists")
			if nUp > len(leaves) {
				nUp = len(leaves)
			}
			perm := make([]int, len(leaves))
			for i := range perm {
				perm[i] = i
			}
			for i := 0; i < nUp; i++ {
				j := i + c.W(len(leaves)-i, "duel-leaf")
				perm[i], perm[j] = perm[j], perm[i]
			}
			duelLeaves = perm[:nUp]
			per = make([][]update, nUp)
		}
		for k := 0; k < nUp; k++ {
			u := update{Leaf: c.W(len(leaves), "leaf")}
			if duel {
				u.Leaf = duelLeaves[k]
			}
			if c.W(3, "state-or-status") != 0 {
				u.State = states[c.W(len(states), "state")].String()
			} else {
				u.Status = statuses[c.W(len(statuses), "status")].String()
			}
			all = append(all, u)
		}
		sc.Rounds = append(sc.Rounds, all)
		errorSetThisRound := anyCriticalError(root)
		for i, u := range all {
			if duel {
				per[i] = append(per[i], u)
			} else {
				per[owner(u.Leaf)] = append(per[owner(u.Leaf)], u)
			}
			// reference leaf values: the last update per leaf in its owner's order = generation order
			l := leaves[u.Leaf]
			if u.State != "" {
				l.st = sm.StateFromString(u.State)
				if l.Critical && l.st == sm.ERROR {
					errorSetThisRound = true
				}
			} else {
				for _, s := range statuses {
					if s.String() == u.Status {
						l.status = s
					}
				}
			}
		}
		rootWasError := root.role.GetState() == sm.ERROR
		var wg simsync.WaitGroup
		for w := 0; w < len(per); w++ {
			w := w
			wg.Add(1)
			c.S.Go(fmt.Sprintf("updater%d", w), func() {
				defer wg.Done()
				for _, u := range per[w] {
					pu := leaves[u.Leaf].role.(workflow.PublicUpdatable)
					if u.State != "" {
						pu.UpdateState(sm.StateFromString(u.State))
					} else {
						for _, s := range statuses {
							if s.String() == u.Status {
								pu.UpdateStatus(s)
							}
						}
					}
					simrt.Yield()
				}
			})
		}
		wg.Wait()
		// ---- quiescent: compare every node with the reference fold ----
		c.NonTrivial = c.NonTrivial || len(all) > 1
		var walk func(n *node)
		walk = func(n *node) {
			if c.Violated() {
				return
			}
			got := n.role.GetState()
			want, has := refState(n)
			if len(n.Kids) == 0 {
				want, has = n.st, true // a leaf reports its own last state, critical or not
			}
			switch {
			case has && got != want:
				c.Violate("state-fold", fmt.Sprintf("%s:want=%s,got=%s", n.Kind, want, got), "round %d: %s %s reports state %s, the fold of its critical descendants is %s (tree %s)", r, n.Kind, n.name, got, want, shape(root))
			case !has && got != sm.INVARIANT && got != sm.UNKNOWN:
				c.Violate("state-fold", fmt.Sprintf("%s:want=no-opinion,got=%s", n.Kind, got), "round %d: %s %s has no critical descendant but reports %s", r, n.Kind, n.name, got)
			}
			gs, ws := n.role.GetStatus(), refStatus(n)
			if gs != ws {
				c.Violate("status-fold", fmt.Sprintf("%s:want=%s,got=%s", n.Kind, ws, gs), "round %d: %s %s reports status %s, the fold of its descendants is %s (tree %s)", r, n.Kind, n.name, gs, ws, shape(root))
			}
			for _, k := range n.Kids {
				walk(k)
			}
		}
		walk(root)
		// ERROR at the root iff a critical leaf is in ERROR; never lost nor invented in what the
		// environment (ParentAdapter subscriber) is told
		sawError := false
		n := len(stateCh)
		for i := 0; i < n; i++ {
			if <-stateCh == sm.ERROR {
				sawError = true
			}
		}
		for i, n := 0, len(statusCh); i < n; i++ {
			<-statusCh
		}
		rootErr := root.role.GetState() == sm.ERROR
		if rootErr != anyCriticalError(root) && !c.Violated() {
			c.Violate("root-error", fmt.Sprintf("root-error=%v", rootErr), "round %d: root ERROR=%v but critical leaf in ERROR=%v", r, rootErr, anyCriticalError(root))
		}
		if rootErr && !rootWasError && !sawError && !c.Violated() {
			c.Violate("error-notify", "error-not-notified", "round %d: the root went to ERROR but the subscriber of the ParentAdapter never received ERROR", r)
		}
		if sawError && !errorSetThisRound && !c.Violated() {
			c.Violate("error-notify", "error-invented", "round %d: the subscriber received ERROR although no critical leaf was in ERROR at any point of the round", r)
		}
		if rootErr {
			c.Count("probe.root_error")
		}
		st, _ := refState(root)
		c.State(fmt.Sprintf("leaves=%d root=%s/%s", len(leaves), st, refStatus(root)))
		if c.Violated() {
			return
		}
	}
}

var H = &hk.Harness{
	Name: "htree", Property: "C11", Body: body,
	MaxSteps: 300000, MaxSim: time.Hour, WarpTo2026: true,
	Post: func(c *hk.Ctx, res simrt.Result) {
		if res.Reason != simrt.StopRequested && !c.Violated() {
			c.Violate("liveness", "hang:"+res.Reason, "run ended with %s: an update never returned; blocked: %v", res.Reason, res.Blocked)
		}
	},
}

func TestSim(t *testing.T) { hk.Main(t, H) }
