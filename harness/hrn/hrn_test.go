package hrn

import (
	"fmt"
	"strconv"
	"testing"
	"time"

	"github.com/AliceO2Group/Control/apricot/local"
	"github.com/AliceO2Group/Control/configuration/cfgbackend"
	"github.com/anishathalye/porcupine"

	"simrt"
	"simrt/simsync"
	"verif/hk"
	"verif/peers/simconsul"
)

// H-rn: the real run-number path (apricot/local.Service.NewRunNumber ->
// cfgbackend.ConsulSource.GetNextUInt32 -> hashicorp/consul/api) of 1-4 cores sharing one
// simulated Consul, with concurrent callers, foreign writers, request faults, core death at a
// drawn request and restarts.

// the key of the shared counter is whatever key the code under test uses: learnt from its first request

type call struct {
	Core    int    `json:"core"`
	Caller  int    `json:"caller"`
	Invoke  int    `json:"invoke_seq"`
	Return  int    `json:"return_seq"`
	Value   uint32 `json:"value"`
	Err     string `json:"err,omitempty"`
	invAt   time.Duration
	retAt   time.Duration
	pending bool
}

type scenario struct {
	Cores     int     `json:"cores"`
	Callers   []int   `json:"callers_per_core"`
	Foreign   int     `json:"foreign_writers"`
	DoomedReq []int   `json:"core_dies_at_request"` // per core: -1 = never
	Restarts  int     `json:"restarted_cores"`
	Initial   string  `json:"initial_counter"`
	Calls     []*call `json:"calls"`
	FaultPct  int     `json:"fault_percent"`
}

func body(c *hk.Ctx) {
	sc := &scenario{Cores: 1 + c.W(4, "cores"), Foreign: c.W(3, "foreign")}
	c.Scenario = sc
	store := simconsul.NewStore()
	rnKey := ""
	sc.Initial = []string{"absent", "41", "500000"}[c.W(3, "initial")] // absent: first allocation creates the key
	sc.FaultPct = []int{0, 5, 20}[c.F(3, "fault-level")]
	var mu simsync.Mutex
	seq := 0
	reqCount := map[string]int{}
	dead := map[string]bool{}
	doomed := map[string]int{}
	store.Latency = func() time.Duration { return time.Duration(c.F(4, "latency")) * 7 * time.Millisecond }
	store.Policy = func(client, method, key, query string) string {
		mu.Lock()
		defer mu.Unlock()
		if rnKey == "" {
			rnKey = key
			if sc.Initial != "absent" {
				store.Set(rnKey, sc.Initial)
			}
		}
		if key != rnKey {
			c.Violate("setup", "several-counter-keys", "run number requests use keys %q and %q", rnKey, key)
		}
		if dead[client] {
			return simconsul.FaultDieBefore
		}
		reqCount[client]++
		if d, ok := doomed[client]; ok && reqCount[client] == d {
			dead[client] = true
			c.Count("fault.core_died")
			if c.F(2, "die-when") == 0 {
				return simconsul.FaultDieBefore
			}
			return simconsul.FaultDieAfter
		}
		if sc.FaultPct > 0 && c.F(100, "req-fault") < sc.FaultPct {
			return []string{simconsul.Fault500, simconsul.FaultConnBefore, simconsul.FaultLostAfter, simconsul.FaultSlow}[c.F(4, "req-fault-kind")]
		}
		return simconsul.FaultNone
	}

	var calls []*call
	startCore := func(name string, idx int, callers int, wg *simsync.WaitGroup) {
		src, err := cfgbackend.NewConsulSourceForVerif("sim-consul:8500", store.HTTPClient(name))
		if err != nil {
			c.Violate("setup", "consul-source", "%v", err)
			return
		}
		svc := local.NewServiceWithSourceForVerif(src)
		for k := 0; k < callers; k++ {
			n := 1 + c.W(4, "calls")
			pause := c.W(30, "pause-ms")
			k := k
			wg.Add(1)
			c.S.Go(fmt.Sprintf("%s/caller%d", name, k), func() {
				defer wg.Done()
				for i := 0; i < n; i++ {
					mu.Lock()
					if dead[name] {
						mu.Unlock()
						return
					}
					seq++
					cl := &call{Core: idx, Caller: k, Invoke: seq, invAt: c.S.Now(), pending: true}
					calls = append(calls, cl)
					mu.Unlock()
					v, err := svc.NewRunNumber()
					mu.Lock()
					seq++
					cl.Return, cl.retAt, cl.Value, cl.pending = seq, c.S.Now(), v, false
					if err != nil {
						cl.Err = err.Error()
					}
					mu.Unlock()
					c.Logf("core %s caller %d -> %d err=%v", name, k, v, err)
					if pause > 0 {
						simrt.Sleep(time.Duration(pause) * time.Millisecond)
					}
				}
			})
		}
	}
	// a WaitGroup cannot be waited on when callers die: poll instead
	var wg simsync.WaitGroup
	for i := 0; i < sc.Cores; i++ {
		name := fmt.Sprintf("core%d", i)
		n := 1 + c.W(3, "callers")
		sc.Callers = append(sc.Callers, n)
		d := -1
		if c.F(4, "doomed") == 3 {
			d = 1 + c.F(8, "doomed-at")
			mu.Lock()
			doomed[name] = d
			mu.Unlock()
		}
		sc.DoomedReq = append(sc.DoomedReq, d)
		startCore(name, i, n, &wg)
	}
	for f := 0; f < sc.Foreign; f++ {
		n := 1 + c.W(3, "foreign-writes")
		c.S.Go(fmt.Sprintf("foreign%d", f), func() {
			for i := 0; i < n; i++ {
				simrt.Sleep(time.Duration(1+c.W(40, "foreign-at")) * time.Millisecond)
				// another writer on the same key: only ever raises the counter or rewrites it
				mu.Lock()
				key := rnKey
				mu.Unlock()
				if key == "" {
					continue
				}
				store.Bump(key, uint64(c.W(4, "foreign-bump"))) // atomic: raises, or rewrites the same value
				c.Count("fault.foreign_write")
			}
		})
	}
	waitLive := func() bool {
		for i := 0; i < 3000; i++ {
			mu.Lock()
			pendingLive := 0
			for _, cl := range calls {
				if cl.pending && !dead[fmt.Sprintf("core%d", cl.Core)] && !dead[fmt.Sprintf("restart%d", cl.Core-100)] {
					pendingLive++
				}
			}
			mu.Unlock()
			if pendingLive == 0 && i > 5 {
				return true
			}
			simrt.Sleep(100 * time.Millisecond)
		}
		return false
	}
	ok := waitLive()
	// restart the cores that died: a fresh instance, nothing in memory
	mu.Lock()
	var died []int
	for i := 0; i < sc.Cores; i++ {
		if dead[fmt.Sprintf("core%d", i)] {
			died = append(died, i)
		}
	}
	mu.Unlock()
	for _, i := range died {
		sc.Restarts++
		startCore(fmt.Sprintf("restart%d", i), 100+i, 1+c.W(2, "restart-callers"), &wg)
	}
	if len(died) > 0 {
		ok = waitLive() && ok
	}
	if !ok {
		c.Violate("liveness", "call-never-returned", "a NewRunNumber call of a live core did not return within 300 s of simulated time")
	}

	// ---- oracles ----
	mu.Lock()
	defer mu.Unlock()
	sc.Calls = calls
	succ := 0
	seen := map[uint32]*call{}
	var ops []porcupine.Operation
	for _, cl := range calls {
		if cl.pending {
			continue
		}
		if cl.Err != "" {
			c.Count("probe.call_failed")
			continue
		}
		succ++
		if o, dup := seen[cl.Value]; dup {
			c.Violate("unique", "duplicate-run-number", "run number %d handed out twice: core %d (invoke %d) and core %d (invoke %d)", cl.Value, o.Core, o.Invoke, cl.Core, cl.Invoke)
		}
		seen[cl.Value] = cl
		// a successful call is backed by an applied, successful compare-and-set of that value
		name := fmt.Sprintf("core%d", cl.Core)
		if cl.Core >= 100 {
			name = fmt.Sprintf("restart%d", cl.Core-100)
		}
		backed := false
		for _, r := range store.Log {
			if r.Client == name && r.Method == "PUT" && r.Body == strconv.FormatUint(uint64(cl.Value), 10) && r.Applied && r.Resp == "true" && r.Status == 200 {
				backed = true
			}
		}
		if !backed {
			c.Violate("atomic-advance", "success-without-cas", "core %s returned run number %d without a successful atomic update of the counter to that value", name, cl.Value)
		}
		if d := cl.retAt - cl.invAt; d > 10*time.Second {
			c.Violate("liveness", "call-slow", "NewRunNumber took %v of simulated time", d)
		}
		ops = append(ops, porcupine.Operation{ClientId: cl.Core*10 + cl.Caller, Input: nil, Call: int64(cl.Invoke), Output: cl.Value, Return: int64(cl.Return)})
	}
	c.NonTrivial = succ >= 2
	// linearizable against a fetch-and-increase register: a later call (invoked after another
	// returned) gets a larger number; gaps are allowed (failed calls may burn numbers)
	model := porcupine.Model{
		Init: func() interface{} { return uint32(0) },
		Step: func(state, input, output interface{}) (bool, interface{}) {
			v := output.(uint32)
			return v > state.(uint32), v
		},
	}
	switch porcupine.CheckOperationsTimeout(model, ops, 20*time.Second) {
	case porcupine.Illegal:
		c.Violate("increasing", "not-linearizable", "the successful calls cannot be ordered so that numbers strictly increase in real-time order: %s", describe(calls))
	case porcupine.Unknown:
		c.Count("porcupine.unknown")
	default:
		c.Count("porcupine.ok")
	}
	c.State(fmt.Sprintf("cores=%d foreign=%d restarts=%d succ=%s", sc.Cores, sc.Foreign, sc.Restarts, bucket(succ)))
}

func bucket(n int) string {
	switch {
	case n < 2:
		return fmt.Sprint(n)
	case n < 5:
		return "2-4"
	case n < 10:
		return "5-9"
	}
	return ">=10"
}

func describe(calls []*call) string {
	s := ""
	for _, cl := range calls {
		if !cl.pending && cl.Err == "" {
			s += fmt.Sprintf("[%d..%d core%d -> %d] ", cl.Invoke, cl.Return, cl.Core, cl.Value)
		}
	}
	return s
}

var H = &hk.Harness{
	Name: "hrn", Property: "C07", Body: body,
	MaxSteps: 300000, MaxSim: 2 * time.Hour, WarpTo2026: true,
	Post: func(c *hk.Ctx, res simrt.Result) {
		if res.Reason != simrt.StopRequested && !c.Violated() {
			c.Violate("liveness", "hang:"+res.Reason, "run ended with %s; blocked: %v", res.Reason, res.Blocked)
		}
	},
}

func TestSim(t *testing.T) { hk.Main(t, H) }
