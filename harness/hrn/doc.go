package hrn
