package hcmdq

import (
	"errors"
	"fmt"
	"sort"
	"testing"
	"time"

	cc "github.com/AliceO2Group/Control/core/controlcommands"
	"github.com/AliceO2Group/Control/common/utils/uid"
	mesos "github.com/mesos/mesos-go/api/v1/lib"
	"github.com/rs/xid"

	"simrt"
	"simrt/simsync"
	"verif/hk"
)

// H-cmdq: the real CommandQueue + Servent (instrumented) with an injected send function; the
// simulated executors answer according to a per-(command,target) behaviour drawn from the
// fault stream.

type behaviour int

const (
	bReply behaviour = iota
	bErrReply
	bSendFail
	bSilent
	bDuplicate
	bLate
	bForeignID   // answers with an unknown command id only
	bOtherCmd    // answers (also) with the id of another command of this run, before its own reply
	bWrongSender // another target's reply arrives bearing this command id but the other sender; own reply follows
	nBehaviours
)

var bNames = [...]string{"reply", "error-reply", "send-fail", "silent", "duplicate", "late", "foreign-id", "other-cmd-id", "wrong-sender"}

// reply is the response type of the simulated executors: attributable by nonce.
type reply struct {
	cc.MesosCommandResponseBase
	Nonce  int
	ForCmd int
	ForTgt int
}

type cmdSpec struct {
	Targets   []int    `json:"targets"`
	TimeoutS  int      `json:"timeout_s"`
	Behaviour []string `json:"behaviour"`
	DelayMs   []int    `json:"delay_ms"`
	Client    int      `json:"client"`
	beh       []behaviour
	cmd       *cc.MesosCommandBase
	firstSend time.Duration
	sent      bool
	done      bool
}

type scenario struct {
	Clients  int        `json:"clients"`
	Commands []*cmdSpec `json:"commands"`
}

func target(i int) cc.MesosCommandTarget {
	return cc.MesosCommandTarget{
		AgentId:    mesos.AgentID{Value: fmt.Sprintf("agent%d", i%2)},
		ExecutorId: mesos.ExecutorID{Value: fmt.Sprintf("exec%d", i)},
		TaskId:     mesos.TaskID{Value: fmt.Sprintf("task%d", i)},
	}
}

func body(c *hk.Ctx) {
	sc := &scenario{Clients: 1 + c.W(3, "clients")}
	c.Scenario = sc
	nCmd := 1 + c.W(4, "commands")
	env := uid.ID("2rE9AV3m1HL") // a fixed id: the process-wide generator keeps state across runs
	var mu simsync.Mutex
	nonce := 0
	genuine := map[int][2]int{} // nonce -> (cmd index, target)
	var servent *cc.Servent

	for k := 0; k < nCmd; k++ {
		cs := &cmdSpec{Client: c.W(sc.Clients, "client"), TimeoutS: []int{1, 5, 90, 120}[c.W(4, "timeout")]}
		nT := c.W(6, "targets") // 0..5 targets
		perm := []int{0, 1, 2, 3, 4}
		for i := 0; i < nT; i++ {
			j := i + c.W(5-i, "target-pick")
			perm[i], perm[j] = perm[j], perm[i]
			cs.Targets = append(cs.Targets, perm[i])
		}
		var tl []cc.MesosCommandTarget
		for _, t := range cs.Targets {
			tl = append(tl, target(t))
			b := behaviour(c.F(int(nBehaviours), "behaviour"))
			cs.beh = append(cs.beh, b)
			cs.Behaviour = append(cs.Behaviour, bNames[b])
			// delay: anything but the last 10% before the timeout (an oracle must not encode
			// timing to the millisecond); late = 110%..300% of the timeout
			d := c.F(900, "delay") * cs.TimeoutS // ms, < 90% of timeout
			if c.F(4, "quick-answer") == 3 {
				d = c.F(3, "quick-delay") // an executor on a fast path: the answer may overtake the return of the send call
			}
			if b == bLate {
				d = cs.TimeoutS*1100 + c.F(1900, "late")*cs.TimeoutS
			}
			cs.DelayMs = append(cs.DelayMs, d)
		}
		cs.cmd = cc.NewMesosCommand(fmt.Sprintf("CMD%d", k), env, tl, nil)
		cs.cmd.ResponseTimeout = time.Duration(cs.TimeoutS) * time.Second
		sc.Commands = append(sc.Commands, cs)
	}
	cmdIndex := func(id xid.ID) int {
		for i, cs := range sc.Commands {
			if cs.cmd.Id == id {
				return i
			}
		}
		return -1
	}
	mkReply := func(k, t int, id xid.ID, errStr string, genuineReply bool) *reply {
		mu.Lock()
		nonce++
		n := nonce
		if genuineReply {
			genuine[n] = [2]int{k, t}
		}
		mu.Unlock()
		return &reply{MesosCommandResponseBase: cc.MesosCommandResponseBase{CommandName: fmt.Sprintf("CMD%d", k), CommandId: id, EnvironmentId: env, ErrorString: errStr, MessageType: "MesosCommandResponse"}, Nonce: n, ForCmd: k, ForTgt: t}
	}
	deliver := func(after time.Duration, r *reply, sender int, what string) {
		c.S.Go("deliver-"+what, func() {
			if after > 0 {
				simrt.Sleep(after)
			}
			c.Logf("deliver %s cmd=%d tgt=%d sender=%d nonce=%d t=%v", what, r.ForCmd, r.ForTgt, sender, r.Nonce, c.S.Now())
			servent.ProcessResponse(r, target(sender))
		})
	}
	send := func(cmd cc.MesosCommand, rcv cc.MesosCommandTarget) error {
		k := cmdIndex(cmd.GetId())
		if k < 0 {
			c.Violate("send", "unknown-command-sent", "send function called with a command id that was never enqueued")
			return errors.New("unknown")
		}
		cs := sc.Commands[k]
		ti := -1
		for i, t := range cs.Targets {
			if target(t) == rcv {
				ti = i
			}
		}
		if ti < 0 {
			c.Violate("send", "sent-to-non-target", "command %d sent to %s which is not among its targets", k, rcv.TaskId.Value)
			return errors.New("not a target")
		}
		mu.Lock()
		if !cs.sent {
			cs.sent = true
			cs.firstSend = c.S.Now()
		}
		mu.Unlock()
		t := cs.Targets[ti]
		b := cs.beh[ti]
		d := time.Duration(cs.DelayMs[ti]) * time.Millisecond
		c.Count("fault.behaviour." + bNames[b])
		c.Logf("send cmd=%d tgt=%d behaviour=%s delay=%v t=%v", k, t, bNames[b], d, c.S.Now())
		// the send is an HTTP round trip to the master: the message is on its way half way through,
		// the call returns only at the end
		if lat := []time.Duration{0, 0, 2 * time.Millisecond, 40 * time.Millisecond}[c.F(4, "send-latency")]; lat > 0 {
			c.Count("fault.slow_send")
			simrt.Sleep(lat / 2)
			defer simrt.Sleep(lat / 2)
		}
		switch b {
		case bReply:
			deliver(d, mkReply(k, t, cmd.GetId(), "", true), t, "reply")
		case bErrReply:
			deliver(d, mkReply(k, t, cmd.GetId(), fmt.Sprintf("task%d failed", t), true), t, "error-reply")
		case bSendFail:
			return fmt.Errorf("cannot reach executor of task%d", t)
		case bSilent:
		case bDuplicate:
			deliver(d, mkReply(k, t, cmd.GetId(), "", true), t, "reply")
			deliver(d+time.Duration(c.F(3, "dup-gap"))*time.Millisecond, mkReply(k, t, cmd.GetId(), "", true), t, "dup-reply")
		case bLate:
			deliver(d, mkReply(k, t, cmd.GetId(), "", true), t, "late-reply")
		case bForeignID:
			deliver(d, mkReply(k, t, xid.New(), "", false), t, "foreign-id")
		case bOtherCmd:
			// a stray reply bearing the id of another command: one this executor was never
			// sent, or one that is already complete (an executor cannot know the id of a
			// command it has not received yet)
			var cands []int
			mu.Lock()
			for o, oc := range sc.Commands {
				isTgt := false
				for _, x := range oc.Targets {
					isTgt = isTgt || x == t
				}
				if o != k && (!isTgt || oc.done) {
					cands = append(cands, o)
				}
			}
			mu.Unlock()
			if len(cands) > 0 {
				o := cands[c.F(len(cands), "other")]
				deliver(d/2, mkReply(o, t, sc.Commands[o].cmd.Id, "stray", false), t, "other-cmd-id")
			}
			deliver(d, mkReply(k, t, cmd.GetId(), "", true), t, "reply")
		case bWrongSender:
			// a reply bearing this command's id from an executor that is not among its targets
			o := -1
			for x := 0; x < 6; x++ {
				isTgt := false
				for _, y := range cs.Targets {
					isTgt = isTgt || y == x
				}
				if !isTgt {
					o = x
					break
				}
			}
			deliver(d/2, mkReply(k, o, cmd.GetId(), "stray", false), o, "wrong-sender")
			deliver(d, mkReply(k, t, cmd.GetId(), "", true), t, "reply")
		}
		return nil
	}
	servent = cc.NewServent(send)
	q := cc.NewCommandQueue(servent)
	q.Start()

	type outcome struct {
		got   []cc.MesosCommandResponse
		at    []time.Duration
		enqAt time.Duration
	}
	outs := make([]*outcome, nCmd)
	var wg simsync.WaitGroup
	for cl := 0; cl < sc.Clients; cl++ {
		cl := cl
		wg.Add(1)
		c.S.Go(fmt.Sprintf("client%d", cl), func() {
			defer wg.Done()
			for k, cs := range sc.Commands {
				if cs.Client != cl {
					continue
				}
				o := &outcome{enqAt: c.S.Now()}
				mu.Lock()
				outs[k] = o
				mu.Unlock()
				cb := make(chan cc.MesosCommandResponse)
				if err := q.Enqueue(cs.cmd, cb); err != nil {
					c.Violate("enqueue", "enqueue-failed", "enqueue failed: %v", err)
					continue
				}
				k := k
				// collector: everything that ever arrives on this callback channel
				got := make(chan struct{}, 8)
				c.S.Go("collector", func() {
					for {
						r := simrt.Recv(cb)
						mu.Lock()
						o.got = append(o.got, r)
						o.at = append(o.at, c.S.Now())
						sc.Commands[k].done = true
						mu.Unlock()
						c.Logf("callback cmd=%d t=%v", k, c.S.Now())
						got <- struct{}{}
						simrt.Yield()
					}
				})
				simrt.Recv(got)
			}
		})
	}
	wg.Wait()
	// let late and duplicate replies arrive, then make sure the queue still works
	simrt.Sleep(400 * time.Second)
	probe := cc.NewMesosCommand("PROBE", env, []cc.MesosCommandTarget{target(0)}, nil)
	probe.ResponseTimeout = time.Second
	sc.Commands = append(sc.Commands, &cmdSpec{Targets: []int{0}, TimeoutS: 1, beh: []behaviour{bReply}, DelayMs: []int{10}, Behaviour: []string{"reply"}, cmd: probe})
	pcb := make(chan cc.MesosCommandResponse, 1)
	q.Enqueue(probe, pcb)
	probeOK := false
	c.S.Go("probe-wait", func() {
		if r := simrt.Recv(pcb); r != nil && r.Err() == nil {
			probeOK = true
		}
	})
	simrt.Sleep(10 * time.Second)
	if !probeOK {
		c.Violate("queue-alive", "queue-blocked", "a command enqueued after all others completed got no successful answer within 10 s: the queue or the servent is stuck")
	}

	// ---- oracles ----
	mu.Lock()
	defer mu.Unlock()
	for k, cs := range sc.Commands[:nCmd] {
		o := outs[k]
		if o == nil {
			continue
		}
		c.NonTrivial = c.NonTrivial || len(cs.Targets) > 0
		if len(o.got) != 1 {
			c.Violate("exactly-once", fmt.Sprintf("callbacks=%d", min(len(o.got), 2)), "command %d (%d targets) completed %d times", k, len(cs.Targets), len(o.got))
			continue
		}
		res := o.got[0]
		if len(cs.Targets) == 0 {
			continue // nothing to command: covered by C02 ("succeeds at once")
		}
		// within the response timeout, counted from the moment the command was handed to the
		// send function
		if lim := cs.firstSend + time.Duration(cs.TimeoutS)*time.Second + 100*time.Millisecond; o.at[0] > lim {
			c.Violate("timeout", "late-completion", "command %d completed at %v, sent at %v with timeout %ds", k, o.at[0], cs.firstSend, cs.TimeoutS)
		}
		if res == nil {
			c.Violate("result", "nil-result", "command %d with %d targets completed with a nil result", k, len(cs.Targets))
			continue
		}
		per := map[cc.MesosCommandTarget]cc.MesosCommandResponse{}
		if mr, ok := res.(*cc.MesosCommandMultiResponse); ok {
			per = mr.GetResponses()
		} else {
			if len(cs.Targets) != 1 {
				c.Violate("result", "single-for-multi", "command %d with %d targets completed with a single-target result", k, len(cs.Targets))
				continue
			}
			per[target(cs.Targets[0])] = res
		}
		if len(per) != len(cs.Targets) {
			c.Violate("result", "target-set", "command %d: result holds %d targets, command had %d", k, len(per), len(cs.Targets))
		}
		for i, t := range cs.Targets {
			r, ok := per[target(t)]
			if !ok || r == nil {
				c.Violate("result", "missing-target", "command %d: no entry for target %d (behaviour %s)", k, t, cs.Behaviour[i])
				continue
			}
			rep, isReply := r.(*reply)
			if isReply {
				own, isGenuine := genuine[rep.Nonce]
				if !isGenuine || own != [2]int{k, t} {
					c.Violate("attribution", "foreign-reply:"+cs.Behaviour[i], "command %d target %d (behaviour %s): result holds reply nonce %d made for command %d target %d (genuine=%v)", k, t, cs.Behaviour[i], rep.Nonce, rep.ForCmd, rep.ForTgt, isGenuine)
					continue
				}
			}
			switch cs.beh[i] {
			case bReply, bDuplicate, bOtherCmd, bWrongSender:
				if !isReply {
					c.Violate("attribution", "reply-lost:"+cs.Behaviour[i], "command %d target %d answered in time (%s) but the result holds %T %v", k, t, cs.Behaviour[i], r, r.Err())
				} else if r.Err() != nil {
					c.Violate("attribution", "reply-altered", "command %d target %d: successful reply reported as error %v", k, t, r.Err())
				}
			case bErrReply:
				if !isReply || r.Err() == nil {
					c.Violate("attribution", "error-reply-lost", "command %d target %d answered with an error but the result holds %T err=%v", k, t, r, r.Err())
				}
			case bSendFail, bSilent, bLate, bForeignID:
				if isReply {
					c.Violate("attribution", "phantom-reply:"+cs.Behaviour[i], "command %d target %d (%s) cannot have a reply, result holds nonce %d", k, t, cs.Behaviour[i], rep.Nonce)
				} else if r.Err() == nil {
					c.Violate("attribution", "no-error:"+cs.Behaviour[i], "command %d target %d (%s): result reports success", k, t, cs.Behaviour[i])
				}
			}
		}
		var bs []string
		bs = append(bs, cs.Behaviour...)
		sort.Strings(bs)
		c.State(fmt.Sprint(bs))
	}
}

var H = &hk.Harness{
	Name: "hcmdq", Property: "C12", Body: body,
	MaxSteps: 200000, MaxSim: 3 * time.Hour, WarpTo2026: true,
	Post: func(c *hk.Ctx, res simrt.Result) {
		if res.Reason != simrt.StopRequested && !c.Violated() {
			c.Violate("liveness", "hang:"+res.Reason, "run ended with %s after %v: a command never completed; blocked: %v", res.Reason, res.SimTime, res.Blocked)
		}
	},
}

func TestSim(t *testing.T) { hk.Main(t, H) }
