package hcmdq
