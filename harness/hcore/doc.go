package hcore
