package hcore

import (
	"context"
	"fmt"
	"io"
	stdlog "log"
	"os"
	"path/filepath"
	"regexp"
	"strings"
	"time"

	"github.com/AliceO2Group/Control/apricot"
	"github.com/AliceO2Group/Control/apricot/local"
	"github.com/AliceO2Group/Control/common/event/topic"
	"github.com/AliceO2Group/Control/common/utils/uid"
	"github.com/AliceO2Group/Control/configuration/cfgbackend"
	"github.com/AliceO2Group/Control/core"
	"github.com/AliceO2Group/Control/core/environment"
	"github.com/AliceO2Group/Control/core/integration"
	"github.com/AliceO2Group/Control/core/task"
	"github.com/AliceO2Group/Control/core/task/schedutil"
	"github.com/AliceO2Group/Control/core/the"
	git "github.com/go-git/go-git/v5"
	"github.com/go-git/go-git/v5/plumbing/object"
	"github.com/sirupsen/logrus"
	"github.com/spf13/viper"

	"simrt"
	"verif/hk"
	"verif/peers/simconsul"
	"verif/peers/simmesos"
)

// coreInst is one incarnation of the AliECS core inside the simulation.
type coreInst struct {
	inc     int
	rpc     *core.RpcServer
	taskman *task.Manager
	envman  *environment.Manager
	cancel  context.CancelFunc
	exited  bool
}

type sys struct {
	c       *hk.Ctx
	consul  *simconsul.Store
	mesos   *simmesos.World
	repoDir string
	workDir string
	cur     *coreInst
	nInc    int
	reuse   bool // reuseUnlockedTasks
}

// writeRepo creates the local workflow repository (a git repository, as the repo manager wants).
func writeRepo(dir string, workflows, tasks map[string]string) error {
	for _, sub := range []string{"workflows", "tasks"} {
		if err := os.MkdirAll(filepath.Join(dir, sub), 0o755); err != nil {
			return err
		}
	}
	for n, y := range workflows {
		if err := os.WriteFile(filepath.Join(dir, "workflows", n+".yaml"), []byte(y), 0o644); err != nil {
			return err
		}
	}
	for n, y := range tasks {
		if err := os.WriteFile(filepath.Join(dir, "tasks", n+".yaml"), []byte(y), 0o644); err != nil {
			return err
		}
	}
	r, err := git.PlainInit(dir, false)
	if err != nil {
		return err
	}
	wt, err := r.Worktree()
	if err != nil {
		return err
	}
	if _, err = wt.Add("."); err != nil {
		return err
	}
	_, err = wt.Commit("workflows", &git.CommitOptions{Author: &object.Signature{Name: "verif", Email: "verif@example.invalid", When: time.Unix(1700000000, 0)}})
	return err
}

func newSys(c *hk.Ctx) *sys {
	s := &sys{c: c}
	base, err := os.MkdirTemp("/var/tmp", "vhcore")
	if err != nil {
		panic(err)
	}
	s.repoDir = filepath.Join(base, "wfrepo")
	s.workDir = filepath.Join(base, "work")
	os.MkdirAll(s.workDir, 0o755)
	cleanupDirs = append(cleanupDirs, base)
	s.consul = simconsul.NewStore()
	s.mesos = simmesos.NewWorld(c.S)
	return s
}

var cleanupDirs []string

// bootCore starts a (new incarnation of the) core: fresh process-level singletons where the
// hooks allow it, durable state only in simconsul and behind simmesos.
func (s *sys) bootCore() *coreInst {
	s.nInc++
	inc := s.c.S.NewIncarnation()
	ci := &coreInst{inc: inc}
	logrus.SetOutput(io.Discard)
	stdlog.SetOutput(io.Discard)
	logrus.SetLevel(logrus.PanicLevel)
	if f := os.Getenv("HCORE_LOG"); f != "" {
		// development aid: the core's own log of one replayed run (never set by vcheck)
		if fh, err := os.OpenFile(f, os.O_CREATE|os.O_WRONLY|os.O_APPEND, 0o644); err == nil {
			logrus.SetOutput(fh)
			logrus.SetLevel(logrus.DebugLevel)
			logrus.SetFormatter(&logrus.TextFormatter{FullTimestamp: true, TimestampFormat: "05.000", DisableColors: true})
		}
	}
	logrus.StandardLogger().ExitFunc = func(code int) {
		ci.exited = true
		s.c.Logf("core incarnation %d called exit(%d)", inc, code)
		select {} // the process is gone
	}
	viper.Set("metrics.port", -1)
	viper.Set("metrics.path", fmt.Sprintf("/metrics%d", s.nInc))
	viper.Set("metrics.address", "127.0.0.1")
	viper.Set("mesosLabels", schedutil.Labels{})
	viper.Set("reuseUnlockedTasks", s.reuse)
	viper.Set("executor", "/bin/true")
	viper.Set("executorCPU", 0.01)
	viper.Set("executorMemory", 8.0)
	viper.Set("mesosFailoverTimeout", 7*24*time.Hour)
	viper.Set("mesosReviveBurst", 3)
	viper.Set("mesosReviveWait", time.Second)
	viper.Set("mesosJobRestartDelay", 5*time.Second)
	viper.Set("mesosResourceTypeMetrics", false)
	viper.Set("summaryMetrics", false)
	viper.Set("coreWorkingDir", s.workDir)
	viper.Set("defaultRepo", s.repoDir)
	viper.Set("globalDefaultRevision", "master")
	viper.Set("enableKafka", false)
	viper.Set("taskClassCacheTTL", time.Hour)
	viper.Set("integrationPlugins", []string{"sp"})
	viper.Set("spEndpoint", "sim")
	viper.Set("config_endpoint", "consul://sim-consul:8500")
	viper.Set("mesosUrl", "http://sim-mesos:5050/api/v1/scheduler")
	viper.Set("mesosFrameworkUser", "root")
	viper.Set("mesosFrameworkName", "aliecs")
	viper.Set("mesosFrameworkRole", "*")
	viper.Set("mesosFrameworkHostname", "")
	viper.Set("mesosPrincipal", "")
	viper.Set("mesosCheckpoint", true)
	viper.Set("verbose", false)
	viper.Set("veryVerbose", false)
	integration.Reset()
	integration.RegisterPlugin("sp", "spEndpoint", func(string) integration.Plugin { return probePlugin{} })
	src, err := cfgbackend.NewConsulSourceForVerif("sim-consul:8500", s.consul.HTTPClient(fmt.Sprintf("core%d", inc)))
	if err != nil {
		panic(err)
	}
	apricot.SetInstanceForVerif(local.NewServiceWithSourceForVerif(src))
	the.ResetEventWritersForVerif()
	for _, t := range []topic.Topic{topic.Environment, topic.Run, topic.Call, topic.Role, topic.Task, topic.Root, topic.IntegratedService, topic.Core} {
		the.SetEventWriterForVerif(t, capWriter{s})
	}
	task.ResetSchedEventsChForVerif()
	ctx, cancel := context.WithCancel(context.Background())
	ci.cancel = cancel
	done := make(chan struct{})
	s.c.S.GoInc(inc, fmt.Sprintf("core%d-boot", inc), func() {
		defer close(done)
		rpc, tm, em, err := core.NewRpcServerForVerif(cancel)
		if err != nil {
			s.c.Violate("setup", "boot", "core boot failed: %v", err)
			return
		}
		tm.SetCallerForVerif(s.mesos.Caller(inc))
		_ = the.RepoManager()
		ci.rpc, ci.taskman, ci.envman = rpc, tm, em
		tm.Start(ctx)
	})
	simrt.Recv(done)
	s.cur = ci
	return ci
}

// crash kills the current core incarnation at this very decision: its goroutines never run again.
func (s *sys) crash() {
	s.c.S.Crash(s.cur.inc)
	s.mesos.DropSubscription()
	s.c.Count("fault.core_crash")
}

var tmpDirRe = regexp.MustCompile(`/var/tmp/vhcore[0-9]+`)

// errStr renders an error for the canonical log: one line, and without the random name of the
// run's temporary directory (task class names carry the repository path).
func errStr(err error) string {
	if err == nil {
		return ""
	}
	return tmpDirRe.ReplaceAllString(strings.ReplaceAll(err.Error(), "\n", " | "), "/var/tmp/vhcoreN")
}

// probePlugin is a minimal integration plugin (public plugin API): workflows may call sp.Probe().
type probePlugin struct{}

func (probePlugin) GetName() string                                     { return "sp" }
func (probePlugin) GetPrettyName() string                               { return "sim probe" }
func (probePlugin) GetEndpoint() string                                 { return "sim" }
func (probePlugin) GetConnectionState() string                          { return "READY" }
func (probePlugin) GetData([]any) string                                { return "" }
func (probePlugin) GetEnvironmentsData([]uid.ID) map[uid.ID]string      { return nil }
func (probePlugin) GetEnvironmentsShortData([]uid.ID) map[uid.ID]string { return nil }
func (probePlugin) Init(string) error                                   { return nil }
func (probePlugin) Destroy() error                                      { return nil }
func (probePlugin) ObjectStack(map[string]string, map[string]string) map[string]interface{} {
	return map[string]interface{}{}
}
func (probePlugin) CallStack(data interface{}) map[string]interface{} {
	return map[string]interface{}{
		"Probe": func() string {
			simrt.Count("probe.plugin_call")
			return ""
		},
		"Slow": func() string { // a call that takes a while (simulated time)
			simrt.Sleep(150 * time.Millisecond)
			return ""
		},
	}
}
