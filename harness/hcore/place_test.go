package hcore

import (
	"context"
	"fmt"
	"sort"
	"strconv"
	"strings"
	"time"

	pb "github.com/AliceO2Group/Control/core/protos"

	"simrt"
	"simrt/simsync"
	"verif/hk"
	"verif/peers/simmesos"
)

// Placement and channel-configuration scenarios: C05 (constraints, resources, ports, declines)
// and C13 (outbound channels connect to where the inbound ones were bound).

type constr struct {
	Attr  string `json:"attribute"`
	Value string `json:"value"`
}

type chanSpec struct {
	Name      string `json:"name"`
	Type      string `json:"type"`
	Transport string `json:"transport,omitempty"`
	Addr      string `json:"addressing,omitempty"` // tcp | ipc (inbound)
	Global    string `json:"global,omitempty"`
	Target    string `json:"target,omitempty"` // outbound
	// reference: what the target must resolve to
	targetRole string
	targetChan string
	explicit   bool
	dangling   bool
}

type ptask struct {
	Role     string      `json:"role"`
	Class    string      `json:"class"`
	Group    string      `json:"group"` // enclosing aggregator
	Cpu      float64     `json:"cpu"`
	Mem      float64     `json:"mem"`
	Static   string      `json:"static_ports,omitempty"`
	ClassC   []constr    `json:"class_constraints,omitempty"`
	RoleC    []constr    `json:"role_constraints,omitempty"`
	Bind     []*chanSpec `json:"bind,omitempty"`
	Connect  []*chanSpec `json:"connect,omitempty"`
	Critical bool        `json:"critical"`
	merged   map[string]string
	path     string
}

type pgroup struct {
	Name    string      `json:"name"`
	C       []constr    `json:"constraints,omitempty"`
	Connect []*chanSpec `json:"connect,omitempty"` // inherited by every task of the group
}

type pscenario struct {
	Agents []map[string]any `json:"agents"`
	RootC  []constr         `json:"root_constraints,omitempty"`
	Groups []*pgroup        `json:"groups"`
	Tasks  []*ptask         `json:"tasks"`
	Expect string           `json:"expect"`
	Result string           `json:"result"`
	// second round (C13): the environment is destroyed keeping its tasks, a second workflow with the
	// same templates under other role paths claims them (reuseUnlockedTasks)
	Reuse   bool   `json:"reuse,omitempty"`
	Result2 string `json:"result2,omitempty"`
}

func yamlConstr(ind string, cs []constr) string {
	if len(cs) == 0 {
		return ""
	}
	s := ind + "constraints:\n"
	for _, c := range cs {
		s += fmt.Sprintf("%s  - attribute: %s\n%s    value: %s\n", ind, c.Attr, ind, c.Value)
	}
	return s
}

func yamlChans(ind, key string, cs []*chanSpec) string {
	if len(cs) == 0 {
		return ""
	}
	s := ind + key + ":\n"
	for _, c := range cs {
		s += fmt.Sprintf("%s  - name: %s\n%s    type: %s\n", ind, c.Name, ind, c.Type)
		if c.Transport != "" {
			s += fmt.Sprintf("%s    transport: %s\n", ind, c.Transport)
		}
		if c.Addr != "" {
			s += fmt.Sprintf("%s    addressing: %s\n", ind, c.Addr)
		}
		if c.Global != "" {
			s += fmt.Sprintf("%s    global: %s\n", ind, c.Global)
		}
		if c.Target != "" {
			s += fmt.Sprintf("%s    target: \"%s\"\n", ind, c.Target)
		}
	}
	return s
}

func bodyPlace(c *hk.Ctx, prop string) {
	s := newSys(c)
	sc := &pscenario{}
	c.Scenario = sc
	events = nil
	sc.Reuse = prop == "C13" && c.W(6, "reuse-round") == 5
	s.reuse = sc.Reuse
	viol := func(p, oracle, sig, format string, a ...any) {
		if p == prop {
			c.Violate(oracle, sig, format, a...)
		}
	}

	// alias-heavy mode (C13): one task per host, equal port ranges everywhere, so that inbound channels
	// of different tasks get the same port number on different hosts, and many of them claim one alias
	aliasHeavy := prop == "C13" && c.W(5, "alias-heavy") == 4
	// ---- agents with attributes, scalar resources near and far from the demand, fragmented ports ----
	nAgents := 2 + c.W(3, "agents")
	zones := []string{"a", "b"}
	for i := 0; i < nAgents; i++ {
		h := fmt.Sprintf("h%d", i+1)
		a := &simmesos.Agent{ID: "agent-" + h, Hostname: h, Attributes: map[string]string{
			"machine_id": h, "zone": zones[c.W(2, "zone")], "kind": []string{"flp", "flp,test", "epn"}[c.W(3, "kind")]},
			Cpus: []float64{0.45, 1.2, 8}[c.W(3, "cpus")], Mem: []float64{300, 4096}[c.W(2, "mem")]}
		switch c.W(5, "ports") {
		case 4:
			a.PortsBegin, a.PortsEnd = 9000, 9200 // nothing a control port can be taken from: the task cannot be completed on this offer
		case 3:
			a.PortsBegin, a.PortsEnd = 9102, 31000 // has 9103 but not 9100-9101
		case 0:
			a.PortsBegin, a.PortsEnd = 9000, 31000
		case 1:
			a.PortsBegin, a.PortsEnd = 29990, 30012
		case 2:
			a.PortsBegin, a.PortsEnd = 9000, 30004
		}
		if aliasHeavy {
			a.Cpus, a.Mem, a.PortsBegin, a.PortsEnd = 1.2, 4096, 9000, 31000
		}
		s.mesos.Agents = append(s.mesos.Agents, a)
		s.consul.Set("o2/hardware/detectors/DET"+fmt.Sprint(i+1)+"/flps/"+h+"/", "")
		sc.Agents = append(sc.Agents, map[string]any{"host": h, "attributes": a.Attributes, "cpus": a.Cpus, "mem": a.Mem, "ports": [2]uint64{a.PortsBegin, a.PortsEnd}})
	}
	s.mesos.Latency = func(kind string) time.Duration { return time.Duration(c.F(3, "latency-"+kind)) * 3 * time.Millisecond }

	// ---- workflow: root constraints, 1-2 groups with constraints, tasks with class and role constraints ----
	attrVals := map[string][]string{"zone": {"a", "b"}, "kind": {"flp", "test", "epn"}}
	drawC := func(label string, max int) []constr {
		var out []constr
		n := c.W(max+1, label)
		for i := 0; i < n; i++ {
			attr := []string{"zone", "kind"}[c.W(2, label+"-attr")]
			out = append(out, constr{attr, attrVals[attr][c.W(len(attrVals[attr]), label+"-val")]})
		}
		return out
	}
	if prop == "C05" {
		sc.RootC = drawC("root-c", 1)
	}
	nGroups := 1 + c.W(2, "groups")
	for g := 0; g < nGroups; g++ {
		gr := &pgroup{Name: fmt.Sprintf("g%d", g)}
		if prop == "C05" {
			gr.C = drawC("group-c", 2)
		}
		sc.Groups = append(sc.Groups, gr)
	}
	nTasks := 1 + c.W(4, "tasks")
	for i := 0; i < nTasks; i++ {
		classIdx := i
		if prop == "C05" && i > 0 && c.W(3, "share-class") == 2 {
			classIdx = c.W(i, "shared-class") // several roles running the same task template
		}
		t := &ptask{Role: fmt.Sprintf("t%d", i), Class: fmt.Sprintf("pc%d", classIdx), Group: sc.Groups[c.W(nGroups, "task-group")].Name,
			Cpu: []float64{0.1, 0.4, 1}[c.W(3, "want-cpu")], Mem: []float64{64, 256}[c.W(2, "want-mem")], Critical: true}
		t.path = "wfp." + t.Group + "." + t.Role
		if aliasHeavy {
			t.Cpu = 1
		}
		if classIdx != i {
			// same template: same wants, constraints and channels as the first user of the class
			o := sc.Tasks[classIdx]
			t.Cpu, t.Mem, t.Static, t.ClassC, t.Bind = o.Cpu, o.Mem, o.Static, o.ClassC, o.Bind
			t.RoleC = drawC("role-c", 2)
			sc.Tasks = append(sc.Tasks, t)
			continue
		}
		if prop == "C05" {
			t.ClassC = drawC("class-c", 1)
			t.RoleC = drawC("role-c", 2)
			switch c.W(6, "static-ports") {
			case 4:
				t.Static = "9100-9101"
			case 5:
				t.Static = "9103,9100-9101" // a list need not be ascending
			}
		}
		nBind := c.W(3, "bind")
		for b := 0; b < nBind; b++ {
			ch := &chanSpec{Name: fmt.Sprintf("in%d", b), Type: "pull", Addr: []string{"tcp", "tcp", "ipc"}[c.W(3, "addressing")], Transport: []string{"", "zeromq", "shmem"}[c.W(3, "transport")]}
			if prop == "C13" && c.W(4, "global") == 3 {
				ch.Global = []string{"aliasx", "aliasy"}[c.W(2, "alias")]
			}
			if aliasHeavy {
				ch.Addr, ch.Transport, ch.Global = "tcp", "", []string{"", "aliasx"}[c.W(2, "heavy-alias")]
			}
			t.Bind = append(t.Bind, ch)
		}
		sc.Tasks = append(sc.Tasks, t)
	}
	// outbound channels (C13): targets by role path, by alias, explicit, dangling
	aliasOwners := map[string][]*ptask{}
	for _, t := range sc.Tasks {
		for _, b := range t.Bind {
			if b.Global != "" {
				aliasOwners[b.Global] = append(aliasOwners[b.Global], t)
			}
		}
	}
	if prop == "C13" {
		for _, t := range sc.Tasks {
			n := c.W(3, "connect")
			for k := 0; k < n; k++ {
				ch := &chanSpec{Name: fmt.Sprintf("out%d", k), Type: "push"}
				var cands []struct {
					t *ptask
					b *chanSpec
				}
				for _, o := range sc.Tasks {
					if o != t {
						for _, b := range o.Bind {
							cands = append(cands, struct {
								t *ptask
								b *chanSpec
							}{o, b})
						}
					}
				}
				switch kind := c.W(8, "target-kind"); {
				case kind == 7:
					ch.Target, ch.explicit = "tcp://otherhost.example:12345", true
				case kind == 6:
					ch.Target, ch.dangling = "wfp.g0.nobody:nothing", true
				case len(cands) > 0:
					cd := cands[c.W(len(cands), "target")]
					ch.targetRole, ch.targetChan = cd.t.Role, cd.b.Name
					if cd.b.Global != "" && c.W(2, "by-alias") == 1 {
						ch.Target = "::" + cd.b.Global
					} else {
						ch.Target = cd.t.path + ":" + cd.b.Name
					}
				default:
					continue
				}
				t.Connect = append(t.Connect, ch)
			}
		}
	}
	// connect declarations at group level, inherited by the tasks below; a task may override the
	// first of them by name, the others must still reach it
	if prop == "C13" {
		for _, g := range sc.Groups {
			if c.W(3, "group-connect") != 2 {
				continue
			}
			var cands []struct {
				t *ptask
				b *chanSpec
			}
			for _, o := range sc.Tasks {
				if o.Group != g.Name {
					for _, b := range o.Bind {
						cands = append(cands, struct {
							t *ptask
							b *chanSpec
						}{o, b})
					}
				}
			}
			if len(cands) == 0 {
				continue
			}
			for k := 0; k < 2; k++ {
				cd := cands[c.W(len(cands), "group-target")]
				g.Connect = append(g.Connect, &chanSpec{Name: fmt.Sprintf("gout%d", k), Type: "push", Target: cd.t.path + ":" + cd.b.Name, targetRole: cd.t.Role, targetChan: cd.b.Name})
			}
			for _, t := range sc.Tasks {
				if t.Group == g.Name && c.W(2, "override-inherited") == 1 {
					cd := cands[c.W(len(cands), "override-target")]
					t.Connect = append(t.Connect, &chanSpec{Name: "gout0", Type: "push", Target: cd.t.path + ":" + cd.b.Name, targetRole: cd.t.Role, targetChan: cd.b.Name})
				}
			}
		}
	}
	// ---- reference: merged constraints (nearest definition of an attribute wins) ----
	for _, t := range sc.Tasks {
		t.merged = map[string]string{}
		apply := func(cs []constr) {
			// within one level a later entry for the same attribute replaces an earlier one
			for _, x := range cs {
				t.merged[x.Attr] = x.Value
			}
		}
		apply(t.ClassC) // farthest: the task template
		apply(sc.RootC)
		for _, g := range sc.Groups {
			if g.Name == t.Group {
				apply(g.C)
			}
		}
		apply(t.RoleC) // nearest
	}
	// ---- YAML ----
	classes := map[string]string{}
	var wf strings.Builder
	fmt.Fprintf(&wf, "name: wfp\ndefaults:\n  deploy_timeout: 15s\n%sroles:\n", yamlConstr("", sc.RootC))
	for _, g := range sc.Groups {
		fmt.Fprintf(&wf, "  - name: %s\n%s%s    roles:\n", g.Name, yamlConstr("    ", g.C), yamlChans("    ", "connect", g.Connect))
		any := false
		for _, t := range sc.Tasks {
			if t.Group != g.Name {
				continue
			}
			any = true
			fmt.Fprintf(&wf, "      - name: %s\n%s%s        task:\n          load: %s\n          critical: true\n", t.Role, yamlConstr("        ", t.RoleC), yamlChans("        ", "connect", t.Connect), t.Class)
			if _, done := classes[t.Class]; done {
				continue
			}
			var cl strings.Builder
			fmt.Fprintf(&cl, "name: %s\ncontrol:\n  mode: fairmq\nwants:\n  cpu: %v\n  memory: %v\n", t.Class, t.Cpu, t.Mem)
			if t.Static != "" {
				fmt.Fprintf(&cl, "  ports: \"%s\"\n", t.Static)
			}
			cl.WriteString(yamlConstr("", t.ClassC))
			cl.WriteString(yamlChans("", "bind", t.Bind))
			fmt.Fprintf(&cl, "command:\n  shell: true\n  value: run-%s\n  arguments: []\n  env: []\n", t.Class)
			classes[t.Class] = cl.String()
		}
		if !any {
			fmt.Fprintf(&wf, "      - name: filler\n        enabled: \"false\"\n        task:\n          load: %s\n", sc.Tasks[0].Class)
		}
	}
	workflows := map[string]string{"wfp": wf.String()}
	if sc.Reuse {
		// same tree under other role paths; a call before DEPLOY keeps the creation busy between its
		// pre-deployment cleanup and the acquisition of tasks
		workflows["wfq"] = strings.ReplaceAll(wf.String(), "wfp", "wfq") +
			"  - name: slowcall\n    call:\n      func: sp.Slow()\n      trigger: before_DEPLOY\n      timeout: 10s\n      critical: false\n"
	}
	if err := writeRepo(s.repoDir, workflows, classes); err != nil {
		c.Violate("setup", "repo", "%v", err)
		return
	}
	ci := s.bootCore()
	if c.Violated() || ci.rpc == nil {
		return
	}
	simrt.Sleep(2 * time.Second)
	rep, err := ci.rpc.NewEnvironment(context.Background(), &pb.NewEnvironmentRequest{WorkflowTemplate: "wfp", Vars: map[string]string{}})
	sc.Result = errStr(err)
	envID := ""
	if rep != nil && rep.Environment != nil {
		envID = rep.Environment.Id
	}
	simrt.Sleep(5 * time.Second)
	for _, cl := range s.mesos.Calls {
		c.Logf("mesos call seq=%d t=%v %s offers=%v tasks=%v %s err=%s", cl.Seq, cl.At, cl.Type, cl.Offers, cl.Tasks, cl.Detail, cl.Err)
	}
	c.NonTrivial = true

	// ---- C05 oracles at the simulated master ----
	agentByID := map[string]*simmesos.Agent{}
	for _, a := range s.mesos.Agents {
		agentByID[a.ID] = a
	}
	// which role a launched task runs for: asked from the core itself (GetTask reports the role path)
	roleOf := map[string]*ptask{}
	for _, id := range s.mesos.TaskOrder {
		if gt, gerr := ci.rpc.GetTask(context.Background(), &pb.GetTaskRequest{TaskId: id}); gerr == nil && gt != nil && gt.Task != nil {
			for _, t := range sc.Tasks {
				if gt.Task.TaskPath == t.path {
					roleOf[id] = t
				}
			}
		}
	}
	taskOf := func(st *simmesos.SimTask) *ptask {
		if t := roleOf[st.ID]; t != nil {
			return t
		}
		// not (or no longer) known to the core: attributable only if its template is used by one role
		var cand *ptask
		n := 0
		for _, t := range sc.Tasks {
			if strings.Contains(st.Class, "/"+t.Class+"@") || strings.HasSuffix(st.Class, "/"+t.Class) {
				cand = t
				n++
			}
		}
		if n == 1 {
			return cand
		}
		return nil
	}
	for _, il := range s.mesos.InvalidLaunches {
		kind := "resources"
		if strings.Contains(il, "port") {
			kind = "ports"
		}
		viol("C05", "launch-within-offer", kind, "the master rejects a launch: %s", il)
	}
	for _, id := range s.mesos.TaskOrder {
		st := s.mesos.Task(id)
		pt := taskOf(st)
		if pt == nil || st.Agent == nil {
			continue
		}
		var attrs []string
		for k := range pt.merged {
			attrs = append(attrs, k)
		}
		sort.Strings(attrs)
		for _, k := range attrs {
			want := pt.merged[k]
			have := st.Agent.Attributes[k]
			ok := false
			for _, v := range strings.Split(have, ",") {
				if v == want {
					ok = true
				}
			}
			if !ok {
				nC := len(pt.merged)
				viol("C05", "constraints", fmt.Sprintf("unsatisfied:%s:of-%d", k, min(nC, 3)), "task %s was launched on %s whose attribute %s=%q does not satisfy the constraint %s=%s (merged constraints %v)", pt.Role, st.Agent.Hostname, k, have, k, want, pt.merged)
			}
		}
		// the offered scalar resources cover what the template asks for
		if st.Cpus+1e-9 < pt.Cpu || st.Mem+1e-9 < pt.Mem {
			viol("C05", "wants", "less-than-wanted", "task %s requests cpus %.2f mem %.0f, its template wants %.2f / %.0f", pt.Role, st.Cpus, st.Mem, pt.Cpu, pt.Mem)
		}
		// static port ranges are requested exactly as written
		if pt.Static != "" {
			has := map[uint64]bool{}
			for _, p := range st.Ports {
				has[p] = true
			}
			if !has[9100] || !has[9101] || (strings.Contains(pt.Static, "9103") && !has[9103]) {
				viol("C05", "static-ports", "missing", "task %s has static ports %s in its template but requests ports %v", pt.Role, pt.Static, st.Ports)
			}
		}
	}
	// every offer is used or declined
	used := map[string]bool{}
	for _, cl := range s.mesos.Calls {
		if cl.Type == "ACCEPT" || cl.Type == "DECLINE" {
			for _, o := range cl.Offers {
				used[o] = true
			}
		}
	}
	for id := range s.mesos.Offers {
		if !used[id] {
			viol("C05", "offers-declined", "offer-leaked", "offer %s was neither used nor declined", id)
		}
	}
	// a deployable workflow is deployed (there is an agent satisfying every task, resources permitting)
	c.State(fmt.Sprintf("tasks=%d result-ok=%v", len(sc.Tasks), err == nil))

	// ---- C13 oracles on the CONFIGURE commands received by the executors ----
	if prop != "C13" {
		return
	}
	checkC13 := func(round string, err error, prefix string, since int) {
		viol := func(p, oracle, sig, format string, a ...any) { viol(p, oracle, sig+round, format, a...) }
		taskOf := taskOf
		if round != "" {
			// second round: only what the core itself reports
			role2 := map[string]*ptask{}
			for _, id := range s.mesos.TaskOrder {
				if gt, gerr := ci.rpc.GetTask(context.Background(), &pb.GetTaskRequest{TaskId: id}); gerr == nil && gt != nil && gt.Task != nil {
					for _, t := range sc.Tasks {
						if gt.Task.TaskPath == prefix+strings.TrimPrefix(t.path, "wfp") {
							role2[id] = t
						}
					}
				}
			}
			taskOf = func(st *simmesos.SimTask) *ptask { return role2[st.ID] }
		}
		dangling, aliasClash := false, false
		for _, t := range sc.Tasks {
			for _, ch := range t.Connect {
				if ch.dangling {
					dangling = true
				}
			}
		}
		for _, owners := range aliasOwners {
			if len(owners) > 1 {
				aliasClash = true // two inbound channels claim one alias: different endpoints unless both ipc with equal paths (never)
			}
		}
		sc.Expect = fmt.Sprintf("dangling=%v alias-clash=%v", dangling, aliasClash)
		if (dangling || aliasClash) && err == nil {
			sig := "dangling-target-accepted"
			if aliasClash && !dangling {
				sig = "alias-clash-accepted"
				sameTaskOnly := true
				for _, owners := range aliasOwners {
					for _, o := range owners {
						if len(owners) > 1 && o != owners[0] {
							sameTaskOnly = false
						}
					}
				}
				if sameTaskOnly {
					sig = "alias-clash-accepted:within-one-task"
				}
			}
			viol("C13", "invalid-configuration-rejected", sig, "the workflow has %s but the environment was configured", sc.Expect)
			return // an invalid configuration has no right endpoints to compare with
		}
		if err != nil {
			if !dangling && !aliasClash && strings.Contains(errStr(err), "channel") {
				viol("C13", "valid-configuration-accepted", "rejected", "a valid channel configuration was refused: %s", errStr(err))
			}
			return
		}
		// bind endpoints as told to each binder
		type bound struct{ host, addr, transport string }
		binds := map[string]bound{} // role:chan -> endpoint
		cfg := map[string]map[string]string{}
		for _, id := range s.mesos.TaskOrder {
			st := s.mesos.Task(id)
			pt := taskOf(st)
			if pt == nil {
				continue
			}
			for _, rc := range st.Commands {
				if rc.Event == "CONFIGURE" && rc.Seq > since {
					cfg[pt.Role] = rc.Arguments
					if round != "" && st.LaunchSeq < since {
						c.Count("probe.reused_task_configured")
					}
				}
			}
			args := cfg[pt.Role]
			if args == nil {
				continue
			}
			for _, b := range pt.Bind {
				addr := args["chans."+b.Name+".0.address"]
				if args["chans."+b.Name+".0.method"] != "bind" || addr == "" {
					viol("C13", "inbound-bound", "not-told-to-bind", "task %s: inbound channel %s is not told to bind (address %q method %q)", pt.Role, b.Name, addr, args["chans."+b.Name+".0.method"])
					continue
				}
				if strings.HasPrefix(addr, "tcp://") {
					port, _ := strconv.ParseUint(addr[strings.LastIndex(addr, ":")+1:], 10, 64)
					own := false
					for _, p := range st.Ports {
						if p == port {
							own = true
						}
					}
					if !own {
						viol("C13", "inbound-bound", "port-not-allocated", "task %s binds %s on %s, a port that was not allocated to it (%v)", pt.Role, b.Name, addr, st.Ports)
					}
				}
				binds[pt.Role+":"+b.Name] = bound{st.Agent.Hostname, addr, args["chans."+b.Name+".0.transport"]}
			}
		}
		for _, t := range sc.Tasks {
			args := cfg[t.Role]
			if args == nil {
				continue
			}
			eff := append([]*chanSpec(nil), t.Connect...)
			for _, g := range sc.Groups {
				if g.Name != t.Group {
					continue
				}
				for _, gc := range g.Connect {
					overridden := false
					for _, own := range t.Connect {
						if own.Name == gc.Name {
							overridden = true
						}
					}
					if !overridden {
						eff = append(eff, gc)
					}
				}
			}
			for _, ch := range eff {
				got := args["chans."+ch.Name+".0.address"]
				if got == "" && !ch.explicit {
					viol("C13", "outbound-address", "channel-missing", "task %s: outbound channel %s (target %s) is missing from the CONFIGURE arguments", t.Role, ch.Name, ch.Target)
					continue
				}
				if ch.explicit {
					if got != ch.Target {
						viol("C13", "explicit-target", "altered", "task %s: explicit target %s was turned into %q", t.Role, ch.Target, got)
					}
					continue
				}
				b, ok := binds[ch.targetRole+":"+ch.targetChan]
				if !ok {
					continue
				}
				want := b.addr
				if strings.HasPrefix(b.addr, "tcp://") {
					want = "tcp://" + b.host + b.addr[strings.LastIndex(b.addr, ":"):]
				}
				if got != want {
					viol("C13", "outbound-address", "wrong-endpoint", "task %s: outbound channel %s (target %s) is told to connect to %q, the inbound channel %s of %s was bound at %q on host %s", t.Role, ch.Name, ch.Target, got, ch.targetChan, ch.targetRole, b.addr, b.host)
				}
				if args["chans."+ch.Name+".0.method"] != "connect" {
					viol("C13", "outbound-address", "method", "task %s: outbound channel %s has method %q", t.Role, ch.Name, args["chans."+ch.Name+".0.method"])
				}
				if gt := args["chans."+ch.Name+".0.transport"]; gt != b.transport {
					viol("C13", "outbound-transport", "differs-from-inbound", "task %s: outbound channel %s uses transport %q, the inbound side uses %q", t.Role, ch.Name, gt, b.transport)
				}
			}
		}
	}
	checkC13("", err, "wfp", 0)
	if !sc.Reuse || err != nil || c.Violated() || envID == "" {
		return
	}
	// the first environment is destroyed keeping its tasks while the second one is being created:
	// tasks released after the newcomer's pre-deployment cleanup and before its acquisition are claimed
	since := s.mesos.Seq()
	var wg simsync.WaitGroup
	wg.Add(1)
	c.S.Go("destroy-keeping-tasks", func() {
		defer wg.Done()
		if _, derr := ci.rpc.DestroyEnvironment(context.Background(), &pb.DestroyEnvironmentRequest{Id: envID, KeepTasks: true}); derr != nil {
			c.Logf("destroy keeping the tasks failed: %v", derr)
		}
	})
	simrt.Sleep(time.Duration(c.W(5, "create-after")) * 10 * time.Millisecond)
	_, err2 := ci.rpc.NewEnvironment(context.Background(), &pb.NewEnvironmentRequest{WorkflowTemplate: "wfq", Vars: map[string]string{}})
	wg.Wait()
	sc.Result2 = errStr(err2)
	simrt.Sleep(5 * time.Second)
	c.Count("probe.reuse_round")
	checkC13(":re-used-tasks", err2, "wfq", since)
}
