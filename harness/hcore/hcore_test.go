package hcore

import (
	"context"
	"fmt"
	"os"
	"sort"
	"strconv"
	"strings"
	"testing"
	"time"

	evpb "github.com/AliceO2Group/Control/common/protos"
	pb "github.com/AliceO2Group/Control/core/protos"

	"simrt"
	"simrt/simsync"
	"verif/hk"
	"verif/peers/simmesos"
)

// H-core: the whole AliECS core (RPC methods, environment manager, FSM and transitions, task
// manager, scheduler handlers, command queue, workflow loading from a generated local
// repository, configuration service over the real Consul client, mesos-go controller) in one
// bubble against simmesos (master + agents + executors + tasks) and simconsul.

type taskSpec struct {
	Role      string            `json:"role"`
	Class     string            `json:"class"`
	Host      string            `json:"host"`
	Critical  bool              `json:"critical"`
	Mode      string            `json:"mode"`
	Start     string            `json:"start"`              // ok | late | fails | never
	OnEvent   map[string]string `json:"on_event,omitempty"` // transition event -> outcome name
	Hook      string            `json:"hook_trigger,omitempty"`
	HookExit  int               `json:"hook_exit,omitempty"`
	HookEnd   string            `json:"hook_end,omitempty"`   // "", exit1, signal, involuntary, never
	WantCpu   float64           `json:"want_cpu,omitempty"`   // more than any agent has: cannot be placed
	HookQuick bool              `json:"hook_quick,omitempty"` // its child ends before the trigger is acknowledged
}

type wfSpec struct {
	// CallHook: a call role started at enter_CONFIGURED (during creation) and awaited at
	// after_STOP_ACTIVITY: pending for as long as no run was stopped
	CallHook      bool        `json:"pending_call_hook,omitempty"`
	Name          string      `json:"name"`
	Hosts         []string    `json:"hosts"`
	Tasks         []*taskSpec `json:"tasks"`
	DeployTimeout int         `json:"deploy_timeout_s"`
}

type request struct {
	Client       int    `json:"client"`
	Env          int    `json:"env"`
	Op           string `json:"op"` // NEW, DEPLOY.., DESTROY, CLEANUP
	Force        bool   `json:"force,omitempty"`
	Keep         bool   `json:"keep_tasks,omitempty"`
	AllowRunning bool   `json:"allow_in_running,omitempty"`
	// results
	Err    string `json:"err,omitempty"`
	State  string `json:"state,omitempty"`
	RunNo  uint32 `json:"run_number,omitempty"`
	invoke int
	ret    int
	invAt  time.Duration
	retAt  time.Duration
	done   bool
}

type scenario struct {
	Agents    []string   `json:"agents"`
	Workflows []*wfSpec  `json:"workflows"`
	Requests  []*request `json:"requests"`
	Notes     []string   `json:"notes,omitempty"`
}

type evRec struct {
	seq    int
	at     time.Duration
	env    string
	state  string
	trans  string
	step   string
	msg    string
	errS   string
	run    uint32
	runEv  bool
	status string
}

type capWriter struct{ s *sys }

func (cw capWriter) WriteEvent(e interface{}) { cw.WriteEventWithTimestamp(e, time.Now()) }
func (cw capWriter) Close()                   {}
func (cw capWriter) WriteEventWithTimestamp(e interface{}, _ time.Time) {
	s := cw.s
	evMu.Lock()
	defer evMu.Unlock()
	switch ev := e.(type) {
	case *evpb.Ev_EnvironmentEvent:
		events = append(events, evRec{seq: s.mesos.Seq(), at: s.c.S.Now(), env: ev.EnvironmentId, state: ev.State, trans: ev.Transition, step: ev.TransitionStep, msg: ev.Message, errS: ev.Error, run: ev.RunNumber})
	case *evpb.Ev_RunEvent:
		events = append(events, evRec{seq: s.mesos.Seq(), at: s.c.S.Now(), env: ev.EnvironmentId, state: ev.State, trans: ev.Transition, run: ev.RunNumber, runEv: true, status: ev.TransitionStatus.String(), errS: ev.Error})
	}
}

var (
	evMu   simsync.Mutex
	events []evRec
)

var transitionEvents = []string{"CONFIGURE", "START", "STOP", "RESET"}

func yamlTaskClass(t *taskSpec) string {
	var b strings.Builder
	cpu := 0.1
	if t.WantCpu > 0 {
		cpu = t.WantCpu
	}
	fmt.Fprintf(&b, "name: %s\ncontrol:\n  mode: %s\nwants:\n  cpu: %v\n  memory: 64\n", t.Class, t.Mode, cpu)
	fmt.Fprintf(&b, "command:\n  shell: true\n  value: run-%s\n  arguments: []\n  env: []\n", t.Class)
	return b.String()
}

func yamlWorkflow(w *wfSpec) string {
	var b strings.Builder
	hosts := `[]`
	if len(w.Hosts) > 0 {
		hosts = `["` + strings.Join(w.Hosts, `","`) + `"]`
	}
	fmt.Fprintf(&b, "name: %s\ndefaults:\n  hosts: '%s'\n  deploy_timeout: %ds\nroles:\n", w.Name, hosts, w.DeployTimeout)
	byHost := map[string][]*taskSpec{}
	var hs []string
	for _, t := range w.Tasks {
		if _, ok := byHost[t.Host]; !ok {
			hs = append(hs, t.Host)
		}
		byHost[t.Host] = append(byHost[t.Host], t)
	}
	sort.Strings(hs)
	for _, h := range hs {
		fmt.Fprintf(&b, "  - name: host-%s\n    constraints:\n      - attribute: machine_id\n        value: %s\n    roles:\n", h, h)
		for _, t := range byHost[h] {
			fmt.Fprintf(&b, "      - name: %s\n        task:\n          load: %s\n          critical: %v\n", t.Role, t.Class, t.Critical)
			if t.Hook != "" {
				fmt.Fprintf(&b, "          trigger: %s\n          timeout: 20s\n", t.Hook)
			}
		}
	}
	if w.CallHook {
		b.WriteString("  - name: pendingcall\n    call:\n      func: sp.Probe()\n      trigger: enter_CONFIGURED\n      await: after_STOP_ACTIVITY\n      timeout: 10m\n      critical: false\n")
	}
	if len(w.Tasks) == 0 && !w.CallHook {
		b.WriteString("  []\n")
	}
	return b.String()
}

var outcomeByName = map[string]simmesos.Outcome{}

func init() {
	for i, n := range simmesos.OutcomeNames {
		outcomeByName[n] = simmesos.Outcome(i)
	}
}

func body(c *hk.Ctx) {
	prop := os.Getenv("SIM_PROP")
	if prop == "" {
		prop = "C02"
	}
	c.Property = prop
	switch prop {
	case "C03", "C04", "C06", "C18":
		bodyMulti(c, prop)
		return
	case "C05", "C13":
		bodyPlace(c, prop)
		return
	}
	s := newSys(c)
	sc := &scenario{}
	c.Scenario = sc
	events = nil
	startFailedAndDestroyed = false

	// ---- the cluster ----
	nAgents := 1 + c.W(3, "agents")
	for i := 0; i < nAgents; i++ {
		h := fmt.Sprintf("h%d", i+1)
		sc.Agents = append(sc.Agents, h)
		s.mesos.Agents = append(s.mesos.Agents, &simmesos.Agent{ID: "agent-" + h, Hostname: h, Attributes: map[string]string{"machine_id": h}, Cpus: 8, Mem: 8192, PortsBegin: 9000, PortsEnd: 9200 + 21000})
		s.consul.Set("o2/hardware/detectors/DET"+fmt.Sprint(i+1)+"/flps/"+h+"/", "")
	}
	if c.F(4, "offers-not-in-lock-step") == 3 {
		lateOnce := map[string]bool{}
		s.mesos.OfferDelay = func(a *simmesos.Agent) time.Duration {
			if c.S.Now() < 1500*time.Millisecond || lateOnce[a.ID] {
				return 0 // only one round of offers per agent is late, and not the very first after subscribing
			}
			if c.F(3, "agent-offer-late") == 2 {
				lateOnce[a.ID] = true
				c.Count("fault.offer_late")
				return time.Duration(300+c.F(2500, "offer-late-ms")) * time.Millisecond
			}
			return 0
		}
	}
	s.mesos.Latency = func(kind string) time.Duration { return time.Duration(c.F(4, "latency-"+kind)) * 3 * time.Millisecond }
	if c.F(3, "slow-message-calls") == 2 {
		// MESSAGE calls are network bound: a quick executor's answer can be back before the call returns
		s.mesos.CallLatency = func(typ string) time.Duration {
			if typ == "MESSAGE" {
				return []time.Duration{0, 30 * time.Millisecond, 80 * time.Millisecond}[c.F(3, "message-call-ms")]
			}
			return 0
		}
	}

	// ---- one workflow ----
	wf := &wfSpec{Name: "wfa", DeployTimeout: 10 + c.W(3, "deploy-timeout")*10}
	nTasks := c.W(5, "tasks")
	for i := 0; i < nTasks; i++ {
		t := &taskSpec{Role: fmt.Sprintf("t%d", i), Class: fmt.Sprintf("cls%d", i), Host: sc.Agents[c.W(nAgents, "task-host")],
			Critical: c.W(3, "critical") != 0, Mode: []string{"direct", "fairmq", "direct"}[c.W(3, "mode")], Start: "ok", OnEvent: map[string]string{}}
		switch c.F(12, "start") {
		case 9:
			t.Start = "late"
		case 10:
			t.Start = "fails"
		case 11:
			t.Start = "never"
		}
		for _, ev := range transitionEvents {
			if k := c.F(14, "outcome-"+ev); k >= 9 {
				t.OnEvent[ev] = simmesos.OutcomeNames[k-8]
			}
		}
		wf.Tasks = append(wf.Tasks, t)
	}
	// hook tasks: triggered by the core at a moment of START/STOP_ACTIVITY; how their child ends
	// decides (for critical ones) whether the transition may succeed
	if nTasks > 0 {
		moments := []string{"before_START_ACTIVITY", "after_START_ACTIVITY", "enter_RUNNING", "leave_RUNNING", "before_STOP_ACTIVITY", "after_STOP_ACTIVITY"}
		for i, nh := 0, []int{0, 0, 1, 2}[c.W(4, "hook-tasks")]; i < nh; i++ {
			t := &taskSpec{Role: fmt.Sprintf("hk%d", i), Class: fmt.Sprintf("hkcls%d", i), Host: sc.Agents[c.W(nAgents, "task-host")],
				Critical: c.W(2, "hook-critical") == 1, Mode: "hook", Start: "ok", OnEvent: map[string]string{}, Hook: moments[c.W(len(moments), "hook-moment")]}
			switch c.F(8, "hook-end") {
			case 4:
				t.HookEnd, t.HookExit = "exit1", 1
			case 5:
				t.HookEnd, t.HookExit = "signal", -1 // ended by a signal on its own: exit code -1, voluntary
			case 6:
				t.HookEnd, t.HookExit = "involuntary", -1
			case 7:
				t.HookEnd = "never" // runs into its 20 s timeout
			}
			t.HookQuick = c.W(3, "hook-quick") == 2
			wf.Tasks = append(wf.Tasks, t)
		}
	}
	seen := map[string]bool{}
	for _, t := range wf.Tasks {
		if !seen[t.Host] {
			seen[t.Host] = true
			wf.Hosts = append(wf.Hosts, t.Host)
		}
	}
	sc.Workflows = append(sc.Workflows, wf)
	classes := map[string]string{}
	specByClass := map[string]*taskSpec{}
	for _, t := range wf.Tasks {
		classes[t.Class] = yamlTaskClass(t)
		specByClass[t.Class] = t
	}
	if err := writeRepo(s.repoDir, map[string]string{wf.Name: yamlWorkflow(wf)}, classes); err != nil {
		c.Violate("setup", "repo", "%v", err)
		return
	}
	s.mesos.ScriptFor = func(t *simmesos.SimTask) *simmesos.TaskScript {
		cls := t.Class
		if i := strings.LastIndex(cls, "/"); i >= 0 {
			cls = cls[i+1:]
		}
		if i := strings.Index(cls, "@"); i >= 0 {
			cls = cls[:i]
		}
		sp := specByClass[cls]
		if sp == nil {
			return nil
		}
		ts := &simmesos.TaskScript{OnCommand: map[string]simmesos.Outcome{}, HookExit: sp.HookExit,
			HookInvoluntary: sp.HookEnd == "involuntary", HookNeverTerminates: sp.HookEnd == "never", HookQuick: sp.HookQuick}
		switch sp.Start {
		case "late":
			ts.StartDelay = time.Duration(wf.DeployTimeout)*time.Second + 20*time.Second
		case "fails":
			ts.StartFails = true
		case "never":
			ts.NeverStarts = true
		}
		for ev, o := range sp.OnEvent {
			ts.OnCommand[ev] = outcomeByName[o]
		}
		return ts
	}

	ci := s.bootCore()
	if c.Violated() || ci.rpc == nil {
		return
	}
	simrt.Sleep(2 * time.Second) // subscribed, reconciled, first offers declined

	// ---- requests ----
	ctx := context.Background()
	var mu simsync.Mutex
	do := func(r *request, f func() (string, uint32, error)) {
		mu.Lock()
		r.invoke, r.invAt = s.mesos.Seq(), c.S.Now()
		mu.Unlock()
		st, rn, err := f()
		mu.Lock()
		r.ret, r.retAt, r.State, r.RunNo, r.Err, r.done = s.mesos.Seq(), c.S.Now(), st, rn, errStr(err), true
		mu.Unlock()
		c.Logf("request %s env=%d -> state=%s rn=%d err=%q t=%v", r.Op, r.Env, st, rn, r.Err, c.S.Now())
	}
	envID := ""
	newReq := &request{Op: "NEW"}
	sc.Requests = append(sc.Requests, newReq)
	do(newReq, func() (string, uint32, error) {
		rep, err := ci.rpc.NewEnvironment(ctx, &pb.NewEnvironmentRequest{WorkflowTemplate: wf.Name, Vars: map[string]string{}})
		if rep != nil && rep.Environment != nil {
			envID = rep.Environment.Id
			return rep.Environment.State, rep.Environment.CurrentRunNumber, err
		}
		return "", 0, err
	})
	ops := map[string]pb.ControlEnvironmentRequest_Optype{"CONFIGURE": pb.ControlEnvironmentRequest_CONFIGURE, "START_ACTIVITY": pb.ControlEnvironmentRequest_START_ACTIVITY,
		"STOP_ACTIVITY": pb.ControlEnvironmentRequest_STOP_ACTIVITY, "RESET": pb.ControlEnvironmentRequest_RESET}
	if newReq.Err == "" && envID != "" {
		plan := []string{"START_ACTIVITY", "STOP_ACTIVITY", "RESET", "CONFIGURE", "START_ACTIVITY", "STOP_ACTIVITY"}
		n := 1 + c.W(len(plan), "control-requests")
		for _, op := range plan[:n] {
			r := &request{Op: op}
			sc.Requests = append(sc.Requests, r)
			var dwg simsync.WaitGroup
			destroyedMeanwhile := false
			if prop == "C10" && op == "START_ACTIVITY" && c.W(4, "forced-destroy-during-start") == 3 {
				// another operator destroys the environment (forced) while the run is being started: the
				// teardown takes its turn after the transition and ends the run that was just started
				destroyedMeanwhile = true
				after := []time.Duration{0, 5 * time.Millisecond, 20 * time.Millisecond, 60 * time.Millisecond}[c.W(4, "destroy-after")]
				dwg.Add(1)
				c.S.Go("client-forced-destroy", func() {
					defer dwg.Done()
					simrt.Sleep(after)
					c.Count("probe.forced_destroy_during_start")
					_, derr := ci.rpc.DestroyEnvironment(ctx, &pb.DestroyEnvironmentRequest{Id: envID, Force: true})
					c.Logf("forced DESTROY during START -> err=%q", errStr(derr))
				})
			}
			do(r, func() (string, uint32, error) {
				rep, err := ci.rpc.ControlEnvironment(ctx, &pb.ControlEnvironmentRequest{Id: envID, Type: ops[op]})
				if rep != nil {
					return rep.State, rep.CurrentRunNumber, err
				}
				return "", 0, err
			})
			dwg.Wait()
			if destroyedMeanwhile && r.Err != "" {
				startFailedAndDestroyed = true
			}
			if r.Err != "" || r.State == "ERROR" || destroyedMeanwhile {
				break
			}
		}
		d := &request{Op: "DESTROY", Force: c.W(2, "force") == 1, AllowRunning: true}
		sc.Requests = append(sc.Requests, d)
		do(d, func() (string, uint32, error) {
			_, err := ci.rpc.DestroyEnvironment(ctx, &pb.DestroyEnvironmentRequest{Id: envID, Force: d.Force, AllowInRunningState: d.AllowRunning})
			return "", 0, err
		})
	}
	simrt.Sleep(30 * time.Second)
	for _, cl := range s.mesos.Calls {
		c.Logf("mesos call seq=%d t=%v inc=%d %s fw=%s offers=%v tasks=%v %s err=%s", cl.Seq, cl.At, cl.Inc, cl.Type, cl.FwID, cl.Offers, cl.Tasks, cl.Detail, cl.Err)
	}
	if c.Trace {
		for _, l := range hk.BlockedSummary("Control/core/environment.", "Control/core/task.", "Control/core.(", "controlcommands.") {
			c.Debugf("goroutine at end: %s", l)
		}
	}
	c.NonTrivial = len(wf.Tasks) > 0
	checkC02(c, s, sc, wf, prop)
	if prop == "C10" {
		checkRunEvents(c, envID, wf)
	}
}

// checkRunEvents (C10 through the whole core, where the real StartActivity / StopActivity /
// GoError transition bodies and the teardown run). A run event is published exactly when one of
// the four run timestamps is set, so the events of one environment tell how often they were set:
// after the start of a run there must be, however the run ends (stop, error, failed start,
// teardown while running), exactly two further events before the next run starts: the start and
// the completion of its end. (Their status field is not used: the teardown publishes both as
// STARTED.)
// startFailedAndDestroyed: the START_ACTIVITY of this run failed while a forced destroy was waiting
// for its turn (set by body, read by checkRunEvents; one run per process)
var startFailedAndDestroyed bool

func checkRunEvents(c *hk.Ctx, envID string, wf *wfSpec) {
	// a critical hook failing at leave_RUNNING cancels STOP_ACTIVITY and refuses the GO_ERROR that
	// follows as well: the run then ends through the forced ERROR state (listed known finding)
	refusedGoError := false
	for _, t := range wf.Tasks {
		if t.Hook == "leave_RUNNING" && t.Critical && t.HookEnd != "" {
			refusedGoError = true
		}
	}
	evMu.Lock()
	evs := append([]evRec(nil), events...)
	evMu.Unlock()
	type run struct {
		no      uint32
		ends    int
		endedBy []string
	}
	var cur *run
	n := 0
	finish := func() {
		if cur == nil {
			return
		}
		if cur.ends != 2 && refusedGoError {
			c.Violate("end-timestamps", "forced-error-after-refused-GO_ERROR", "run %d of environment %s ended through the forced ERROR state (STOP_ACTIVITY and GO_ERROR both cancelled by a critical hook at leave_RUNNING): %d end-of-run events instead of 2", cur.no, envID, cur.ends)
		} else if cur.ends == 0 && startFailedAndDestroyed {
			// the failed START left the run open (number and start timestamp set, state CONFIGURED); the
			// forced teardown took its turn before the caller's GO_ERROR and stamps the end only for RUNNING
			c.Violate("end-of-run-timestamps", "end-events=0:failed-start-torn-down-before-its-GO_ERROR",
				"run %d of environment %s: its START_ACTIVITY failed in the task phase and a forced teardown took its turn before the GO_ERROR that would have ended the run: no end-of-run event was published (the teardown stamps the end of a run only in state RUNNING)", cur.no, envID)
		} else if cur.ends != 2 {
			c.Violate("end-of-run-timestamps", fmt.Sprintf("end-events=%d:%s", min(cur.ends, 3), strings.Join(cur.endedBy, "+")),
				"run %d of environment %s: %d end-of-run events (start / completion of the end of run) were published, by %v; each of the two end timestamps is to be set exactly once however the run ends", cur.no, envID, cur.ends, cur.endedBy)
		}
		cur = nil
	}
	for _, e := range evs {
		if !e.runEv || e.env != envID {
			continue
		}
		c.Debugf("run event %s %s rn=%d state=%s", e.trans, e.status, e.run, e.state)
		switch {
		case e.trans == "START_ACTIVITY" && e.status == "STARTED":
			finish()
			cur = &run{no: e.run}
			n++
		case e.trans == "START_ACTIVITY":
			// completion of the start (ok or error)
		case cur != nil:
			cur.ends++
			cur.endedBy = append(cur.endedBy, e.trans)
		}
	}
	finish()
	if n > 0 {
		c.Count("probe.runs_with_events")
	}
}

func checkC02(c *hk.Ctx, s *sys, sc *scenario, wf *wfSpec, prop string) {
	viol := func(p, oracle, sig, format string, a ...any) {
		if p == prop {
			c.Violate(oracle, sig, format, a...)
		}
	}
	evName := map[string]string{"START_ACTIVITY": "START", "STOP_ACTIVITY": "STOP", "RESET": "RESET", "CONFIGURE": "CONFIGURE"}
	dest := map[string]string{"START_ACTIVITY": "RUNNING", "STOP_ACTIVITY": "CONFIGURED", "RESET": "DEPLOYED", "CONFIGURE": "CONFIGURED"}
	// which tasks are active (deployed) and in which state, per the reference
	type tstate struct {
		active bool
		state  string
	}
	ts := map[string]*tstate{}
	for _, t := range wf.Tasks {
		ts[t.Role] = &tstate{}
	}
	for _, r := range sc.Requests {
		if !r.done {
			viol("C02", "liveness", "request-never-returned:"+r.Op, "%s request never returned", r.Op)
			return
		}
		switch r.Op {
		case "NEW":
			// DEPLOY: every critical task active in time; then CONFIGURE
			okDeploy := true
			for _, t := range wf.Tasks {
				if t.Start == "ok" {
					ts[t.Role].active, ts[t.Role].state = true, "STANDBY"
				} else if t.Critical {
					okDeploy = false
				}
			}
			okCfg := true
			for _, t := range wf.Tasks {
				if ts[t.Role].active && t.Critical && t.OnEvent["CONFIGURE"] != "" {
					okCfg = false
				}
			}
			want := okDeploy && okCfg
			c.State(fmt.Sprintf("NEW deploy=%v configure=%v tasks=%d", okDeploy, okCfg, len(wf.Tasks)))
			if want != (r.Err == "") {
				cause := "unexpected-error"
				if !want {
					cause = "unexpected-success"
				} else {
					// the error lists the roles that were not active: all of them non-critical?
					if strings.Contains(r.Err, "deployment timed out") {
						onlyNonCritical, any := true, false
						for _, t := range wf.Tasks {
							if strings.Contains(r.Err, "."+t.Role+"]") || strings.Contains(r.Err, "."+t.Role+",") || strings.Contains(r.Err, "."+t.Role+";") {
								any = true
								if t.Critical {
									onlyNonCritical = false
								}
							}
						}
						if any && onlyNonCritical {
							cause = "noncritical-task-not-active-fails-deploy"
						} else if c.Stats["fault.offer_late"] > 0 {
							cause = "offer-round-without-a-host-deploys-nothing"
						} else if any && queuedDuringRound(s, wf, r.Err) {
							// the TASK_RUNNING of an inactive (but running) critical task was already
							// waiting in the event stream when the core came back from the offers round
							// that launched it: the update and the roster entry (made after the round)
							// are then handled at the same time and the update can find no task
							// (DESIGN 12.10). simmesos observes exactly that circumstance.
							cause = "status-update-before-roster-entry"
						}
					} else if strings.Contains(r.Err, "roles undeployable") && c.Stats["fault.offer_late"] > 0 && !fullRound(s, wf) {
						// the same finding, when every one of the three attempts met such a round
						// (no offers cycle launched the whole workflow)
						cause = "offer-round-without-a-host-deploys-nothing"
					}
				}
				viol("C02", "create-outcome", cause, "NewEnvironment: per-task outcomes say deploy ok=%v configure ok=%v, request returned error %q (state %s); tasks %s", okDeploy, okCfg, r.Err, r.State, describe(wf))
			}
			if r.Err == "" && r.State != "CONFIGURED" {
				viol("C02", "create-state", "state="+r.State, "NewEnvironment succeeded but reports state %s", r.State)
			}
			if !want {
				return
			}
			for _, t := range wf.Tasks {
				if ts[t.Role].active && t.OnEvent["CONFIGURE"] == "" {
					ts[t.Role].state = "CONFIGURED"
				}
			}
		case "START_ACTIVITY", "STOP_ACTIVITY", "RESET", "CONFIGURE":
			ev := evName[r.Op]
			ok := true
			n := 0
			hookMoments := map[string][]string{
				"START_ACTIVITY": {"before_START_ACTIVITY", "after_START_ACTIVITY", "enter_RUNNING"},
				"STOP_ACTIVITY":  {"before_STOP_ACTIVITY", "after_STOP_ACTIVITY", "leave_RUNNING"},
			}
			hookFailed := ""
			for _, t := range wf.Tasks {
				if !ts[t.Role].active {
					continue
				}
				n++
				if t.Critical && t.OnEvent[ev] != "" {
					ok = false
				}
				if t.Hook != "" && t.Critical && t.HookEnd != "" {
					for _, m := range hookMoments[r.Op] {
						if m == t.Hook {
							ok = false
							hookFailed = t.HookEnd
						}
					}
				}
			}
			if hookFailed != "" {
				c.Count("hook_task.critical_failure." + hookFailed)
			}
			c.State(fmt.Sprintf("%s ok=%v targets=%d hook=%s", r.Op, ok, n, hookFailed))
			gotOK := r.Err == "" && r.State == dest[r.Op]
			if ok != gotOK {
				viol("C02", "transition-outcome", fmt.Sprintf("%s:want-ok=%v,err=%v,state=%s,targets=%d", r.Op, ok, r.Err != "", r.State, min(n, 2)), "%s: per-task outcomes say success=%v, the API returned state %s error %q; tasks %s", r.Op, ok, r.State, r.Err, describe(wf))
			}
			if !ok && r.State == dest[r.Op] {
				viol("C02", "destination-reported", r.Op, "%s failed for a critical task but the destination state %s is reported", r.Op, r.State)
			}
			if !ok && r.Err == "" {
				viol("C02", "error-not-returned", r.Op, "%s failed for a critical task (environment in %s) but the request returned no error", r.Op, r.State)
			}
			if !ok {
				if r.State != "ERROR" {
					viol("C02", "not-in-error", r.Op+":"+r.State, "%s failed for a critical task, the environment is in %s instead of ERROR", r.Op, r.State)
				}
				return
			}
			for _, t := range wf.Tasks {
				if ts[t.Role].active && t.OnEvent[ev] == "" {
					ts[t.Role].state = dest[r.Op]
				}
			}
		}
	}
}

// fullRound: did one offers cycle (ACCEPT calls of one instant) launch every task of the workflow?
func fullRound(s *sys, wf *wfSpec) bool {
	perInstant := map[time.Duration]int{}
	for _, cl := range s.mesos.CallsOfType("ACCEPT") {
		perInstant[cl.At] += len(cl.Tasks)
	}
	for _, n := range perInstant {
		if n >= len(wf.Tasks) {
			return true
		}
	}
	return false
}

func describe(wf *wfSpec) string {
	var p []string
	for _, t := range wf.Tasks {
		if t.Hook != "" {
			p = append(p, fmt.Sprintf("%s(crit=%v,hook@%s,ends=%q)", t.Role, t.Critical, t.Hook, t.HookEnd))
			continue
		}
		p = append(p, fmt.Sprintf("%s(crit=%v,%s,start=%s,%v)", t.Role, t.Critical, t.Mode, t.Start, t.OnEvent))
	}
	return strings.Join(p, " ")
}

var H = &hk.Harness{
	Name: "hcore", Property: "C02", Body: body, OneRunPerProcess: true,
	MaxSteps: 3000000, MaxSim: 4 * time.Hour, WarpTo2026: true, IdleLimit: 40 * time.Minute,
	Post: func(c *hk.Ctx, res simrt.Result) {
		for _, d := range cleanupDirs {
			os.RemoveAll(d)
		}
		cleanupDirs = nil
		if res.Reason != simrt.StopRequested && !c.Violated() {
			c.Violate("liveness", "hang:"+res.Reason, "run ended with %s after %v: a request never returned; lock waiters: %v; goroutines inside the core: %v", res.Reason, res.SimTime, res.Blocked, hk.BlockedSummary("Control/core/environment.", "Control/core/task.", "Control/core.(", "controlcommands."))
		}
	},
}

// queuedDuringRound: every critical role the error lists as inactive belongs to a task that runs
// and whose first TASK_RUNNING was queued while the core was still inside its offers round.
func queuedDuringRound(s *sys, wf *wfSpec, errS string) bool {
	n := 0
	for _, t := range wf.Tasks {
		if !t.Critical || !(strings.Contains(errS, "."+t.Role+"]") || strings.Contains(errS, "."+t.Role+",") || strings.Contains(errS, "."+t.Role+";")) {
			continue
		}
		found := false
		for _, st := range s.mesos.AllTasks() {
			if strings.Contains(st.Class, t.Class) && st.RunningQueuedDuringItsRound {
				found = true
			}
		}
		if !found {
			return false
		}
		n++
	}
	return n > 0
}

func TestSim(t *testing.T) {
	if p := os.Getenv("SIM_PROP"); p != "" {
		H.Property = p
	}
	// late goroutine starts (a collector spawned before a request is sent may run only after the
	// answer arrived): on in the C02 check (DESIGN 12.10); the other whole-core checks keep their
	// seeds, VERIF_START_STALL=<n> switches it on (0: off) for any of them
	if p := os.Getenv("SIM_PROP"); p == "" || p == "C02" {
		H.StartStallDen = 12
	}
	if v := os.Getenv("VERIF_START_STALL"); v != "" {
		H.StartStallDen, _ = strconv.Atoi(v)
	}
	hk.Main(t, H)
}
