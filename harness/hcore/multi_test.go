package hcore

import (
	"context"
	"fmt"
	"sort"
	"strings"
	"time"

	pb "github.com/AliceO2Group/Control/core/protos"
	occpb "github.com/AliceO2Group/Control/executor/protos"
	mesos "github.com/mesos/mesos-go/api/v1/lib"

	"simrt"
	"simrt/simsync"
	"verif/hk"
	"verif/peers/simmesos"
)

// Multi-environment scenarios: C03 (critical task failure), C04 (ownership), C06 (destroy leaves
// nothing behind), C18 (restart / reconnect).

type envRec struct {
	Idx                                        int             `json:"idx"`
	Wf                                         string          `json:"workflow"`
	ID                                         string          `json:"id"`
	Created                                    bool            `json:"created"`
	CreateErr                                  string          `json:"create_err,omitempty"`
	Destroyed                                  bool            `json:"destroyed"`
	DestroyErr                                 string          `json:"destroy_err,omitempty"`
	Keep                                       bool            `json:"keep_tasks,omitempty"`
	owned                                      map[string]bool // task ids ever seen owned by it
	createdAtSeq, destroyReqSeq, destroyRetSeq int
	inc                                        int
}

type fault struct {
	Kind     string `json:"kind"`
	Victim   string `json:"victim_role"`
	Critical bool   `json:"victim_critical"`
	AtMs     int    `json:"at_ms_after_ready"`
	During   string `json:"during,omitempty"`
	firedAt  time.Duration
	firedSeq int
	taskID   string
}

type obs struct {
	seq    int
	at     time.Duration
	envs   map[string]string   // env id -> state
	dets   map[string][]string // env id -> detectors
	owner  map[string]string   // task id -> env id ("" = unowned)
	locked map[string]bool
}

type multi struct {
	c            *hk.Ctx
	s            *sys
	sc           *scenario
	prop         string
	mu           simsync.Mutex
	envs         []*envRec
	wfs          map[string]*wfSpec
	specByClass  map[string]*taskSpec
	obs          []*obs
	faults       []*fault
	noMoreFaults bool
}

func (m *multi) viol(p, oracle, sig, format string, a ...any) {
	if p == m.prop {
		m.c.Violate(oracle, sig, format, a...)
	}
}

func (m *multi) rpc() *coreInst { return m.s.cur }

// observe: what API clients are shown (GetEnvironments, GetTasks, GetTask)
func (m *multi) observe() *obs {
	ci := m.rpc()
	ctx := context.Background()
	o := &obs{seq: m.s.mesos.Seq(), at: m.c.S.Now(), envs: map[string]string{}, dets: map[string][]string{}, owner: map[string]string{}, locked: map[string]bool{}}
	er, err := ci.rpc.GetEnvironments(ctx, &pb.GetEnvironmentsRequest{ShowAll: true})
	if err != nil {
		m.c.Debugf("GetEnvironments error: %v", err)
	}
	if err == nil && er != nil {
		for _, e := range er.Environments {
			o.envs[e.Id] = e.State
			d := append([]string(nil), e.IncludedDetectors...)
			sort.Strings(d)
			o.dets[e.Id] = d
		}
	}
	if tr, err := ci.rpc.GetTasks(ctx, &pb.GetTasksRequest{}); err == nil && tr != nil {
		for _, t := range tr.Tasks {
			o.locked[t.TaskId] = t.Locked
			if gt, err := ci.rpc.GetTask(ctx, &pb.GetTaskRequest{TaskId: t.TaskId}); err == nil && gt != nil && gt.Task != nil {
				id := gt.Task.EnvId
				if id == "" || strings.Trim(id, "0") == "" {
					id = ""
				}
				o.owner[t.TaskId] = id
			}
		}
	}
	m.mu.Lock()
	m.obs = append(m.obs, o)
	for tid, eid := range o.owner {
		for _, e := range m.envs {
			if e.ID == eid && eid != "" {
				e.owned[tid] = true
			}
		}
	}
	m.mu.Unlock()
	return o
}

func bodyMulti(c *hk.Ctx, prop string) {
	s := newSys(c)
	if prop == "C04" && c.W(6, "reuse-unlocked-tasks") == 5 {
		// the core's knob: unlocked running tasks may be claimed by a new environment (on this tree such
		// a deployment never completes - the claimed roles stay INACTIVE - but ownership moves meanwhile)
		s.reuse = true
		c.Count("probe.reuse_knob_on")
	}
	sc := &scenario{}
	c.Scenario = sc
	events = nil
	m := &multi{c: c, s: s, sc: sc, prop: prop, wfs: map[string]*wfSpec{}, specByClass: map[string]*taskSpec{}}

	// ---- cluster: 2-3 agents, each host belongs to its own detector ----
	nAgents := 2 + c.W(2, "agents")
	detOf := map[string]string{}
	dets := []string{"TPC", "ITS", "MFT"}
	for i := 0; i < nAgents; i++ {
		h := fmt.Sprintf("h%d", i+1)
		sc.Agents = append(sc.Agents, h)
		s.mesos.Agents = append(s.mesos.Agents, &simmesos.Agent{ID: "agent-" + h, Hostname: h, Attributes: map[string]string{"machine_id": h}, Cpus: 16, Mem: 16384, PortsBegin: 9000, PortsEnd: 31000})
		s.consul.Set("o2/hardware/detectors/"+dets[i]+"/flps/"+h+"/", "")
		detOf[h] = dets[i]
	}
	s.mesos.Latency = func(kind string) time.Duration { return time.Duration(c.F(4, "latency-"+kind)) * 3 * time.Millisecond }
	if prop == "C04" && c.W(3, "slow-kill-calls") == 2 {
		// KILL calls are network bound: other requests make progress while one is in flight
		s.mesos.CallLatency = func(typ string) time.Duration {
			if typ == "KILL" {
				return time.Duration(c.W(3, "kill-call-ms")) * 100 * time.Millisecond
			}
			return 0
		}
	}

	// ---- workflows: 1-3, over possibly overlapping host sets ----
	nWf := 1
	if prop == "C04" || prop == "C06" {
		nWf = 1 + c.W(3, "workflows")
	}
	workflows := map[string]string{}
	classes := map[string]string{}
	for k := 0; k < nWf; k++ {
		wf := &wfSpec{Name: fmt.Sprintf("wf%c", 'a'+k), DeployTimeout: 20}
		nTasks := 1 + c.W(3, "tasks")
		for i := 0; i < nTasks; i++ {
			t := &taskSpec{Role: fmt.Sprintf("t%d", i), Class: fmt.Sprintf("cls%c%d", 'a'+k, i), Host: sc.Agents[c.W(nAgents, "task-host")],
				Critical: c.W(3, "critical") != 0, Mode: []string{"direct", "fairmq"}[c.W(2, "mode")], Start: "ok", OnEvent: map[string]string{}}
			if prop == "C06" {
				switch c.F(10, "start") {
				case 8:
					t.Start = "fails"
				case 9:
					t.Start = "never"
				}
				if c.F(8, "configure-outcome") == 7 {
					t.OnEvent["CONFIGURE"] = "error-stay"
				}
				if i > 0 && c.F(14, "unplaceable") == 13 {
					t.WantCpu = 64 // no agent has that much: creation fails at deployment, after its siblings were launched
				}
			}
			if prop == "C04" && t.Critical && c.F(6, "start-transition-fails") == 5 {
				t.OnEvent["START"] = "error-state" // START_ACTIVITY fails: the environment ends in ERROR, still holding its detectors
			}
			wf.Tasks = append(wf.Tasks, t)
			m.specByClass[t.Class] = t
			classes[t.Class] = yamlTaskClass(t)
		}
		if (prop == "C06" || prop == "C04") && c.W(4, "destroy-hook") == 3 {
			// a hook task run at DESTROY
			t := &taskSpec{Role: "cleanup", Class: fmt.Sprintf("cls%chook", 'a'+k), Host: wf.Tasks[0].Host, Critical: false, Mode: "hook", Start: "ok", OnEvent: map[string]string{}, Hook: "DESTROY"}
			wf.Tasks = append(wf.Tasks, t)
			m.specByClass[t.Class] = t
			classes[t.Class] = yamlTaskClass(t)
		}
		if prop == "C06" && c.W(4, "pending-call-hook") == 3 {
			wf.CallHook = true
		}
		seen := map[string]bool{}
		for _, t := range wf.Tasks {
			if !seen[t.Host] {
				seen[t.Host] = true
				wf.Hosts = append(wf.Hosts, t.Host)
			}
		}
		sort.Strings(wf.Hosts)
		sc.Workflows = append(sc.Workflows, wf)
		m.wfs[wf.Name] = wf
		workflows[wf.Name] = yamlWorkflow(wf)
	}
	if prop == "C06" && c.W(5, "broken-template") == 4 {
		workflows["wfbroken"] = "name: wfbroken\nroles:\n  - name: \"{{ undefined_variable_xyz }}\"\n    task:\n      load: nothing\n"
		sc.Notes = append(sc.Notes, "wfbroken: template error at load")
	}
	if err := writeRepo(s.repoDir, workflows, classes); err != nil {
		c.Violate("setup", "repo", "%v", err)
		return
	}
	s.mesos.ScriptFor = func(t *simmesos.SimTask) *simmesos.TaskScript {
		cls := t.Class
		if i := strings.LastIndex(cls, "/"); i >= 0 {
			cls = cls[i+1:]
		}
		if i := strings.Index(cls, "@"); i >= 0 {
			cls = cls[:i]
		}
		sp := m.specByClass[cls]
		if sp == nil {
			return nil
		}
		ts := &simmesos.TaskScript{OnCommand: map[string]simmesos.Outcome{}, HookExit: sp.HookExit}
		if prop == "C18" {
			ts.StartDelay = time.Duration(c.F(4, "staging-s")) * time.Second
		}
		switch sp.Start {
		case "fails":
			ts.StartFails = true
		case "never":
			ts.NeverStarts = true
		}
		for ev, o := range sp.OnEvent {
			ts.OnCommand[ev] = outcomeByName[o]
		}
		return ts
	}

	if prop == "C06" && c.F(6, "kill-calls-fail") == 5 {
		s.mesos.FailCall = func(inc int, typ string) bool {
			return typ == "KILL" && !m.noMoreFaults && c.F(3, "kill-fails") == 2
		}
	}
	ci := s.bootCore()
	if c.Violated() || ci.rpc == nil {
		return
	}
	simrt.Sleep(2 * time.Second)
	switch prop {
	case "C03":
		m.runC03()
	case "C18":
		m.runC18()
	default:
		m.runOwnership()
	}
}

// ---- request helpers ----

func (m *multi) newEnv(wf string) *envRec {
	e := &envRec{Wf: wf, owned: map[string]bool{}, inc: m.rpc().inc}
	m.mu.Lock()
	e.Idx = len(m.envs) // under the lock: clients create environments concurrently
	m.envs = append(m.envs, e)
	m.mu.Unlock()
	r := &request{Op: "NEW " + wf, Env: e.Idx}
	m.mu.Lock()
	m.sc.Requests = append(m.sc.Requests, r)
	r.invoke, r.invAt = m.s.mesos.Seq(), m.c.S.Now()
	m.mu.Unlock()
	rep, err := m.rpc().rpc.NewEnvironment(context.Background(), &pb.NewEnvironmentRequest{WorkflowTemplate: wf, Vars: map[string]string{}})
	m.mu.Lock()
	r.ret, r.retAt, r.done, r.Err = m.s.mesos.Seq(), m.c.S.Now(), true, errStr(err)
	if rep != nil && rep.Environment != nil {
		e.ID = rep.Environment.Id
		r.State = rep.Environment.State
	}
	e.Created, e.CreateErr, e.createdAtSeq = err == nil, errStr(err), r.ret
	m.mu.Unlock()
	m.c.Logf("NEW %s -> id=%v state=%s err=%q", wf, e.ID != "", r.State, r.Err)
	return e
}

func (m *multi) control(e *envRec, op string) *request {
	ops := map[string]pb.ControlEnvironmentRequest_Optype{"CONFIGURE": pb.ControlEnvironmentRequest_CONFIGURE, "START_ACTIVITY": pb.ControlEnvironmentRequest_START_ACTIVITY,
		"STOP_ACTIVITY": pb.ControlEnvironmentRequest_STOP_ACTIVITY, "RESET": pb.ControlEnvironmentRequest_RESET}
	r := &request{Op: op, Env: e.Idx}
	m.mu.Lock()
	m.sc.Requests = append(m.sc.Requests, r)
	r.invoke, r.invAt = m.s.mesos.Seq(), m.c.S.Now()
	m.mu.Unlock()
	rep, err := m.rpc().rpc.ControlEnvironment(context.Background(), &pb.ControlEnvironmentRequest{Id: e.ID, Type: ops[op]})
	m.mu.Lock()
	r.ret, r.retAt, r.done, r.Err = m.s.mesos.Seq(), m.c.S.Now(), true, errStr(err)
	if rep != nil {
		r.State, r.RunNo = rep.State, rep.CurrentRunNumber
	}
	m.mu.Unlock()
	m.c.Logf("%s env%d -> state=%s err=%q", op, e.Idx, r.State, r.Err)
	return r
}

func (m *multi) destroy(e *envRec, force, keep, allowRunning bool) *request {
	r := &request{Op: "DESTROY", Env: e.Idx, Force: force, Keep: keep, AllowRunning: allowRunning}
	m.mu.Lock()
	m.sc.Requests = append(m.sc.Requests, r)
	r.invoke, r.invAt = m.s.mesos.Seq(), m.c.S.Now()
	e.destroyReqSeq = r.invoke
	e.Keep = keep
	m.mu.Unlock()
	_, err := m.rpc().rpc.DestroyEnvironment(context.Background(), &pb.DestroyEnvironmentRequest{Id: e.ID, Force: force, KeepTasks: keep, AllowInRunningState: allowRunning})
	m.mu.Lock()
	r.ret, r.retAt, r.done, r.Err = m.s.mesos.Seq(), m.c.S.Now(), true, errStr(err)
	e.Destroyed, e.DestroyErr, e.destroyRetSeq = err == nil, errStr(err), r.ret
	m.mu.Unlock()
	m.c.Logf("DESTROY env%d force=%v keep=%v -> err=%q", e.Idx, force, keep, r.Err)
	return r
}

// destroyAgain is a second, concurrent destroy request for an environment: recorded as a request,
// the environment's own bookkeeping is left to the first one.
func (m *multi) destroyAgain(e *envRec, force, keep, allowRunning bool) *request {
	r := &request{Op: "DESTROY", Env: e.Idx, Force: force, Keep: keep, AllowRunning: allowRunning}
	m.mu.Lock()
	m.sc.Requests = append(m.sc.Requests, r)
	r.invoke, r.invAt = m.s.mesos.Seq(), m.c.S.Now()
	m.mu.Unlock()
	_, err := m.rpc().rpc.DestroyEnvironment(context.Background(), &pb.DestroyEnvironmentRequest{Id: e.ID, Force: force, KeepTasks: keep, AllowInRunningState: allowRunning})
	m.mu.Lock()
	r.ret, r.retAt, r.done, r.Err = m.s.mesos.Seq(), m.c.S.Now(), true, errStr(err)
	m.mu.Unlock()
	m.c.Logf("DESTROY (second) env%d force=%v keep=%v -> err=%q", e.Idx, force, keep, r.Err)
	return r
}

func (m *multi) cleanup() {
	r := &request{Op: "CLEANUP"}
	m.mu.Lock()
	m.sc.Requests = append(m.sc.Requests, r)
	r.invoke, r.invAt = m.s.mesos.Seq(), m.c.S.Now()
	m.mu.Unlock()
	_, err := m.rpc().rpc.CleanupTasks(context.Background(), &pb.CleanupTasksRequest{})
	m.mu.Lock()
	r.ret, r.retAt, r.done, r.Err = m.s.mesos.Seq(), m.c.S.Now(), true, errStr(err)
	m.mu.Unlock()
}

func (m *multi) cleanupIds() {
	tr, err := m.rpc().rpc.GetTasks(context.Background(), &pb.GetTasksRequest{})
	if err != nil || tr == nil || len(tr.Tasks) == 0 {
		return
	}
	var ids []string
	for _, t := range tr.Tasks {
		if m.c.W(2, "pick-task") == 1 {
			ids = append(ids, t.TaskId)
		}
	}
	if len(ids) == 0 {
		return
	}
	m.c.Count("probe.cleanup_by_id")
	r := &request{Op: "CLEANUP-IDS"}
	m.mu.Lock()
	m.sc.Requests = append(m.sc.Requests, r)
	r.invoke = m.s.mesos.Seq()
	m.mu.Unlock()
	_, err = m.rpc().rpc.CleanupTasks(context.Background(), &pb.CleanupTasksRequest{TaskIds: ids})
	m.mu.Lock()
	r.ret, r.done, r.Err = m.s.mesos.Seq(), true, errStr(err)
	m.mu.Unlock()
}

func (m *multi) dumpCalls() {
	for _, cl := range m.s.mesos.Calls {
		m.c.Logf("mesos call seq=%d t=%v inc=%d %s fw=%s offers=%v tasks=%v %s err=%s", cl.Seq, cl.At, cl.Inc, cl.Type, cl.FwID, cl.Offers, cl.Tasks, cl.Detail, cl.Err)
	}
	if m.c.Trace {
		for _, l := range hk.BlockedSummary("Control/core/environment.", "Control/core/task.", "Control/core.(", "controlcommands.") {
			m.c.Debugf("goroutine at end: %s", l)
		}
	}
}

// ---- C04 / C06: several clients creating, controlling, destroying, cleaning up ----

func (m *multi) runOwnership() {
	c := m.c
	nClients := 1 + c.W(3, "clients")
	var names []string
	for n := range m.wfs {
		names = append(names, n)
	}
	sort.Strings(names)
	if len(m.sc.Notes) > 0 {
		names = append(names, "wfbroken")
	}
	var wg simsync.WaitGroup
	stopObs := false
	c.S.Go("observer", func() {
		for !stopObs {
			o := m.observe()
			m.checkObservation(o)
			simrt.Sleep(time.Duration(300+c.W(3000, "observe-ms")) * time.Millisecond)
		}
	})
	for cl := 0; cl < nClients; cl++ {
		wg.Add(1)
		cl := cl
		c.S.Go(fmt.Sprintf("client%d", cl), func() {
			defer wg.Done()
			nOps := 1 + c.W(3, "client-envs")
			for k := 0; k < nOps; k++ {
				e := m.newEnv(names[c.W(len(names), "workflow")])
				if !e.Created {
					continue
				}
				m.observe()
				plan := []string{"START_ACTIVITY", "STOP_ACTIVITY", "RESET", "CONFIGURE"}
				n := c.W(len(plan)+1, "controls")
				for _, op := range plan[:n] {
					if r := m.control(e, op); r.Err != "" {
						break
					}
				}
				if c.W(6, "cleanup-now") == 5 {
					m.cleanup()
				}
				if m.prop == "C04" && c.F(6, "reconnect") == 5 {
					// the connection to the master drops and comes back: reconciliation answers for
					// every task (no executor id in them)
					c.Count("fault.c04.reconnect")
					m.s.mesos.DropSubscription()
					simrt.Sleep(3 * time.Second)
				}
				if m.prop == "C04" && c.W(5, "cleanup-by-id") == 4 {
					// an operator cleaning up "the tasks on that host": ids taken from GetTasks
					m.cleanupIds()
				}
				if m.prop == "C06" && c.F(8, "executor-lost") == 7 {
					var tids []string
					for tid := range e.owned {
						tids = append(tids, tid)
					}
					sort.Strings(tids)
					for _, tid := range tids {
						if st := m.s.mesos.Task(tid); st != nil && st.Alive() {
							c.Count("fault.executor_lost_before_destroy")
							m.s.mesos.ExecutorLost(st.ExecID)
							simrt.Sleep(200 * time.Millisecond)
							break
						}
					}
				}
				if c.W(8, "leave-env") != 7 {
					force, keep, allow := c.W(3, "force") == 2, c.W(5, "keep") == 4, c.W(2, "allow-running") == 1
					if m.prop == "C06" && c.W(5, "second-destroy") == 4 {
						// two operators destroy the same environment at the same time: one of the
						// requests cannot be honoured and must say so
						var second *request
						var wg2 simsync.WaitGroup
						wg2.Add(1)
						c.S.Go(fmt.Sprintf("client%d-second-destroy", cl), func() {
							defer wg2.Done()
							second = m.destroyAgain(e, force, keep, allow)
						})
						first := m.destroy(e, force, keep, allow)
						wg2.Wait()
						c.Count("probe.concurrent_destroys")
						if first.Err == "" && second.Err == "" {
							m.viol("C06", "destroy-that-cannot-be-honoured-errs", "two-concurrent-destroys-both-succeed", "two concurrent DestroyEnvironment requests for environment %d both returned success", e.Idx)
						}
						if first.Err != "" && second.Err == "" {
							// the second one did the work
							m.mu.Lock()
							e.Destroyed, e.DestroyErr = true, ""
							m.mu.Unlock()
						}
					} else if m.prop == "C04" && c.W(4, "create-during-teardown") == 3 {
						// another operator asks for the same detectors while this environment is being
						// torn down: refused as long as it is listed, admitted afterwards
						var wg3 simsync.WaitGroup
						wg3.Add(1)
						c.S.Go(fmt.Sprintf("client%d-create-during-teardown", cl), func() {
							defer wg3.Done()
							simrt.Sleep(time.Duration(c.W(120, "create-after-ms")) * time.Millisecond)
							e2 := m.newEnv(e.Wf)
							m.checkObservation(m.observe())
							if e2.Created {
								c.Count("probe.created_during_or_after_teardown")
								m.destroy(e2, true, false, true)
							}
						})
						d := m.destroy(e, force, keep, allow)
						wg3.Wait()
						// The detector check of a creation is the first thing it does. If the teardown had
						// begun before that request was made and ended well after it, the holder was still
						// registered at that moment: the creation must have been refused.
						// (the environment leaves the registry when its teardown is complete, which the core
						// announces with an environment event; the request returns later, after the kills)
						var unregisteredAt time.Duration = -1
						evMu.Lock()
						for _, ev := range events {
							if !ev.runEv && ev.env == e.ID && ev.state == "DONE" && ev.msg == "environment teardown complete" {
								unregisteredAt = ev.at
							}
						}
						evMu.Unlock()
						m.mu.Lock()
						for _, r := range m.sc.Requests {
							if unregisteredAt >= 0 && strings.HasPrefix(r.Op, "NEW") && r.done && r.Err == "" && r.Env > e.Idx && m.envs[r.Env].Wf == e.Wf &&
								d.invAt <= r.invAt && unregisteredAt >= r.invAt+20*time.Millisecond {
								c.Violate("detector-exclusive", "detector-in-two-environments:created-during-teardown-of-the-holder",
									"environment %d (%s) was admitted at %v while environment %d, holding the same detectors, was being torn down (from %v, registered until %v)", r.Env, e.Wf, r.invAt, e.Idx, d.invAt, unregisteredAt)
							}
						}
						m.mu.Unlock()
					} else {
						m.destroy(e, force, keep, allow)
					}
				}
				_ = cl
			}
		})
	}
	wg.Wait()
	simrt.Sleep(20 * time.Second)
	stopObs = true
	final := m.observe()
	m.checkObservation(final)
	m.dumpCalls()
	c.NonTrivial = len(m.envs) > 0
	m.checkOwnershipHistory(final)
}

// invariants over one observation
func (m *multi) checkObservation(o *obs) {
	// detectors of listed environments pairwise disjoint
	seen := map[string]string{}
	for eid, ds := range o.dets {
		for _, d := range ds {
			if other, dup := seen[d]; dup && other != eid {
				// how did they get there? two creations racing (listed known finding: check and
				// registration are not atomic), or one created while the other's teardown was
				// already under way
				sig := "detector-in-two-environments"
				m.mu.Lock()
				rec := map[string]*envRec{}
				newInv := map[int]int{}
				for _, e := range m.envs {
					if e.ID != "" {
						rec[e.ID] = e
					}
				}
				newRet := map[int]int{}
				for _, r := range m.sc.Requests {
					if strings.HasPrefix(r.Op, "NEW") {
						newInv[r.Env] = r.invoke
						if r.done {
							newRet[r.Env] = r.ret
						}
					}
				}
				for _, pair := range [][2]string{{eid, other}, {other, eid}} {
					a, b := rec[pair[0]], rec[pair[1]]
					if a == nil || b == nil {
						continue
					}
					switch {
					case a.destroyReqSeq != 0 && a.destroyReqSeq < newInv[b.Idx]:
						sig = "detector-in-two-environments:created-during-teardown-of-the-holder"
					case newRet[a.Idx] != 0 && newRet[a.Idx] < newInv[b.Idx] && a.destroyReqSeq == 0:
						// a's creation had returned before b's was even requested: no race of two creations
						sig = "detector-in-two-environments:created-while-the-holder-was-established"
					}
				}
				m.mu.Unlock()
				m.viol("C04", "detector-exclusive", sig, "detector %s is part of two listed environments (%s in %s, %s in %s)", d, eid, o.envs[eid], other, o.envs[other])
			}
			seen[d] = eid
		}
	}
	// an owner is a listed environment
	for tid, eid := range o.owner {
		if eid == "" {
			continue
		}
		if _, listed := o.envs[eid]; !listed {
			// the environment may be in the middle of its teardown; decided at the end (C06)
			continue
		}
		_ = tid
	}
	m.c.State(fmt.Sprintf("envs=%d tasks=%d", len(o.envs), len(o.owner)))
}

func (m *multi) checkOwnershipHistory(final *obs) {
	// every request returned
	for _, r := range m.sc.Requests {
		if !r.done {
			m.viol("C06", "liveness", "request-never-returned:"+strings.Fields(r.Op)[0], "%s request never returned", r.Op)
			m.viol("C04", "liveness", "request-never-returned:"+strings.Fields(r.Op)[0], "%s request never returned", r.Op)
			return
		}
	}
	envByID := map[string]*envRec{}
	for _, e := range m.envs {
		if e.ID != "" {
			envByID[e.ID] = e
		}
	}
	// C04: KILL calls never hit a task that is owned, at that moment, by a live environment other
	// than one being destroyed / whose creation failed
	kills := m.s.mesos.CallsOfType("KILL")
	for _, k := range kills {
		for _, tid := range k.Tasks {
			// owner just before the kill, from the closest earlier observation
			var owner string
			for _, o := range m.obs {
				if o.seq <= k.Seq {
					if eid, ok := o.owner[tid]; ok {
						owner = eid
					}
				}
			}
			if owner == "" {
				continue
			}
			e := envByID[owner]
			if e == nil {
				continue
			}
			beingDestroyed := e.destroyReqSeq != 0 && k.Seq >= e.destroyReqSeq
			if e.Created && !beingDestroyed && (final.envs[e.ID] != "" || e.destroyReqSeq != 0) && k.Seq > e.createdAtSeq {
				m.viol("C04", "kill-owned-task", "kill-of-owned-task", "task %s received a KILL (seq %d) while owned by environment %d which nobody asked to destroy", tid, k.Seq, e.Idx)
			}
		}
	}
	// C04: the tasks of an environment that is still listed stay known to the core
	for _, e := range m.envs {
		if !e.Created || e.destroyReqSeq != 0 || final.envs[e.ID] == "" {
			continue
		}
		for tid := range e.owned {
			if st := m.s.mesos.Task(tid); st != nil && st.Alive() {
				if _, known := final.owner[tid]; !known {
					m.viol("C04", "owned-task-forgotten", "task-vanished-from-listing", "task %s, owned by the listed environment %d and alive, is no longer reported by GetTasks", tid, e.Idx)
				}
			}
		}
	}
	// C04: a create that conflicts on a detector fails with the documented error
	for _, e := range m.envs {
		if !e.Created && strings.Contains(e.CreateErr, "already in use") {
			m.c.Count("probe.detector_conflict_rejected")
		}
	}
	// C06: after destroy / failed create nothing is left behind
	for _, e := range m.envs {
		gone := (e.Destroyed) || (!e.Created)
		if !gone {
			continue
		}
		kind := "destroy"
		if !e.Created {
			kind = "failed-create"
		}
		if e.ID != "" {
			if st, listed := final.envs[e.ID]; listed {
				m.viol("C06", "still-listed", kind, "environment %d (%s) is still listed (state %s) after %s returned (error %q)", e.Idx, e.Wf, st, kind, e.DestroyErr+e.CreateErr)
			}
			for tid, owner := range final.owner {
				if owner == e.ID {
					k := kind
					if st := m.s.mesos.Task(tid); st != nil && strings.Contains(st.Class, "hook") {
						k += ":destroy-hook-task"
					}
					m.viol("C06", "task-still-owned", k, "task %s is still owned by environment %d after its %s", tid, e.Idx, kind)
				}
			}
		}
		if !e.Keep && m.prop != "C06" {
			for tid := range e.owned {
				killed := false
				for _, k := range kills {
					for _, t := range k.Tasks {
						if t == tid {
							killed = true
						}
					}
				}
				st := m.s.mesos.Task(tid)
				if !killed && st != nil && st.Alive() {
					m.viol("C06", "task-not-killed", kind, "task %s was owned by environment %d, which is gone (%s), but was never asked to terminate and is still alive", tid, e.Idx, kind)
				}
			}
		}
	}
	// C06: a destroy that did not remove the environment returns an error
	for _, e := range m.envs {
		if e.Created && e.destroyReqSeq != 0 && e.DestroyErr == "" {
			if _, listed := final.envs[e.ID]; listed {
				m.viol("C06", "destroy-success-but-listed", "listed", "DestroyEnvironment of environment %d returned success but it is still listed", e.Idx)
			}
		}
	}
	// C06: a destroy whose KILL for an owned task did not reach the master cannot report success
	// (evaluated before any later cleanup asks again)
	m.mu.Lock()
	reqs := append([]*request(nil), m.sc.Requests...)
	m.mu.Unlock()
	for _, r := range reqs {
		if r.Op != "DESTROY" || !r.done || r.Err != "" || r.Keep {
			continue
		}
		e := m.envs[r.Env]
		for _, k := range kills {
			if k.FailedTask == "" || k.Seq < r.invoke || k.Seq > r.ret || !e.owned[k.FailedTask] {
				continue
			}
			if st := m.s.mesos.Task(k.FailedTask); st != nil && st.Alive() && !st.Killed {
				m.viol("C06", "destroy-that-cannot-be-honoured-errs", "success-although-a-kill-call-failed", "DestroyEnvironment of environment %d returned success, but the KILL call for its task %s failed (seq %d) and the task was never asked again: it is still alive", e.Idx, k.FailedTask, k.Seq)
			}
		}
	}
	// tasks launched for environments that are gone and never became owned fall to the next cleanup
	if m.prop == "C06" {
		m.noMoreFaults = true
		m.cleanup()
		simrt.Sleep(10 * time.Second)
		after := m.observe()
		for _, e := range m.envs {
			if !(e.Destroyed || !e.Created) || e.Keep {
				continue
			}
			for tid := range e.owned {
				if st := m.s.mesos.Task(tid); st != nil && st.Alive() && !st.Killed {
					m.viol("C06", "task-not-killed", "alive-and-never-asked-to-terminate", "task %s was owned by environment %d, which is gone, but was never asked to terminate (not even by the following CleanupTasks) and is still alive", tid, e.Idx)
				}
			}
		}
		liveEnv := map[string]bool{}
		for id := range after.envs {
			liveEnv[id] = true
		}
		if len(liveEnv) == 0 {
			// every environment is gone: none of their hook calls may still be waiting to be awaited
			if left := hk.BlockedSummary("core/workflow/callable.(*Call).Start"); len(left) > 0 {
				m.viol("C06", "pending-calls-cancelled", "call-goroutine-left-after-destroy", "all environments are gone but %d hook call(s) started for them are still waiting to be awaited: %v", len(left), left)
			}
		}
		for _, t := range m.s.mesos.AliveTasks() {
			owner := after.owner[t.ID]
			if owner != "" && liveEnv[owner] {
				continue
			}
			keep := false
			for _, e := range m.envs {
				if e.Keep && e.owned[t.ID] {
					keep = true
				}
			}
			if keep {
				continue
			}
			if _, known := after.owner[t.ID]; known && !t.Killed {
				sig := "alive-after-cleanup"
				if strings.Contains(t.Class, "hook") {
					sig = "alive-after-cleanup:destroy-hook-task"
				}
				m.viol("C06", "leftover-survives-cleanup", sig, "task %s (%s) is alive, not owned by a listed environment (owner %q) and was not killed by CleanupTasks", t.ID, t.Class, owner)
			} else if !known && !t.Killed {
				// What did the core know of the task when it dropped it? Every roster pruning
				// (doKillTasks: at the start of any creation, at the end of a failed one, in
				// CleanupTasks, at the end of a destroy) forgets a task that has not reported
				// TASK_RUNNING yet (listed known finding). The task counts as running for the core
				// only if no such pruning can have fallen between its launch and the processing of
				// its TASK_RUNNING.
				var launchAt time.Duration
				for _, cl := range m.s.mesos.CallsOfType("ACCEPT") {
					for _, tid := range cl.Tasks {
						if tid == t.ID {
							launchAt = cl.At
						}
					}
				}
				knew := "not-yet-running-for-the-core"
				if t.RunningAckAt >= 0 {
					lo, hi := launchAt, t.RunningAckAt+100*time.Millisecond
					pruned := false
					within := func(a, b time.Duration) bool { return a <= hi && b >= lo }
					for _, r := range m.sc.Requests {
						if !r.done {
							pruned = true
							continue
						}
						switch {
						case strings.HasPrefix(r.Op, "NEW"):
							if within(r.invAt, r.invAt+50*time.Millisecond) || (r.Err != "" && within(r.retAt-500*time.Millisecond, r.retAt)) {
								pruned = true
							}
						default: // CLEANUP, DESTROY
							if within(r.invAt, r.retAt) {
								pruned = true
							}
						}
					}
					if !pruned {
						knew = "running-for-the-core"
					}
				}
				gone := launchAt
				m.viol("C06", "leftover-survives-cleanup", "alive-and-unknown-to-the-core:"+knew, "task %s (%s, %s, launched for environment %s; TASK_RUNNING acknowledged at %v, launched at %v) is alive, the core does not list it any more and CleanupTasks did not ask it to terminate", t.ID, t.Class, t.Mesos, t.EnvID, t.RunningAckAt, gone)
			}
		}
	}
}

// ---- C03 ----

func (m *multi) runC03() {
	c := m.c
	var wfName string
	for n := range m.wfs {
		wfName = n
	}
	wf := m.wfs[wfName]
	e := m.newEnv(wfName)
	if !e.Created {
		m.viol("C03", "setup", "create-failed", "fault-free creation failed: %s", e.CreateErr)
		return
	}
	running := c.W(2, "running") == 1
	if running {
		if r := m.control(e, "START_ACTIVITY"); r.Err != "" {
			m.viol("C03", "setup", "start-failed", "fault-free START failed: %s", r.Err)
			return
		}
	}
	m.observe()
	if c.F(4, "reconnect-before-failure") == 3 {
		// the connection to the master was lost and re-established some time before the failure:
		// the reconciliation answers (no executor id in them) must not change how it is handled
		c.Count("fault.c03.reconnect_before_failure")
		m.s.mesos.DropSubscription()
		simrt.Sleep(8 * time.Second)
		m.sc.Notes = append(m.sc.Notes, "reconnection before the failure")
	}
	// victim and failure kind
	vt := wf.Tasks[c.W(len(wf.Tasks), "victim")]
	kinds := []string{"task-failed", "task-lost", "task-killed", "executor-lost", "agent-lost", "internal-error", "agent-lost-failure-event-only"} // a process exiting with status 0 (TASK_FINISHED) is not among the failures the statement lists
	f := &fault{Kind: kinds[c.F(len(kinds), "failure-kind")], Victim: vt.Role, Critical: vt.Critical, AtMs: c.F(3000, "failure-at-ms")}
	m.faults = append(m.faults, f)
	m.sc.Notes = append(m.sc.Notes, fmt.Sprintf("fault %s on %s (critical=%v) in %s", f.Kind, f.Victim, f.Critical, map[bool]string{true: "RUNNING", false: "CONFIGURED"}[running]))
	// optionally a transition racing with the failure
	racing := c.W(3, "racing-transition") == 2
	var raceReq *request
	var wg simsync.WaitGroup
	if racing {
		wg.Add(1)
		c.S.Go("racer", func() {
			defer wg.Done()
			simrt.Sleep(time.Duration(c.W(3000, "race-at-ms")) * time.Millisecond)
			if running {
				raceReq = m.control(e, "STOP_ACTIVITY")
			} else {
				raceReq = m.control(e, "START_ACTIVITY")
			}
		})
		f.During = "transition"
	}
	simrt.Sleep(time.Duration(f.AtMs) * time.Millisecond)
	// find the simulated task
	var victim *simmesos.SimTask
	for _, t := range m.s.mesos.AliveTasks() {
		if strings.Contains(t.Class, vt.Class) {
			victim = t
		}
	}
	if victim == nil {
		m.viol("C03", "setup", "no-victim", "victim task not found alive")
		return
	}
	f.taskID, f.firedAt, f.firedSeq = victim.ID, c.S.Now(), m.s.mesos.Seq()
	c.Count("fault.c03." + f.Kind)
	othersOnVictimScope := false
	switch f.Kind {
	case "task-failed":
		m.s.mesos.FailTask(victim, mesos.TASK_FAILED)
	case "task-finished":
		m.s.mesos.FailTask(victim, mesos.TASK_FINISHED)
	case "task-lost":
		m.s.mesos.FailTask(victim, mesos.TASK_LOST)
	case "task-killed":
		m.s.mesos.FailTask(victim, mesos.TASK_KILLED)
	case "executor-lost":
		othersOnVictimScope = true
		m.s.mesos.ExecutorLost(victim.ExecID)
	case "agent-lost":
		othersOnVictimScope = true
		m.s.mesos.AgentLost(victim.Agent)
	case "agent-lost-failure-event-only":
		// the per-task TASK_LOST updates are held back (the master retries them much later)
		othersOnVictimScope = true
		m.s.mesos.HoldTerminalUpdates = 400 * time.Second
		m.s.mesos.AgentLost(victim.Agent)
	case "internal-error":
		m.s.mesos.DeviceEvent(victim, occpb.DeviceEventType_TASK_INTERNAL_ERROR)
	}
	// the failure takes down every task of the same executor/agent: the effective victim set
	effCritical := vt.Critical
	if othersOnVictimScope {
		for _, t := range wf.Tasks {
			if t.Host == vt.Host && t.Critical {
				effCritical = true
			}
		}
	}
	wg.Wait()
	// poll what clients see for a while
	deadline := 150 * time.Second
	var states []string
	var reachedErrorAt time.Duration
	for el := time.Duration(0); el < deadline; el += 2 * time.Second {
		simrt.Sleep(2 * time.Second)
		o := m.observe()
		st := o.envs[e.ID]
		if len(states) == 0 || states[len(states)-1] != st {
			states = append(states, st)
		}
		if st == "ERROR" && reachedErrorAt == 0 {
			reachedErrorAt = c.S.Now()
		}
	}
	m.dumpCalls()
	c.NonTrivial = true
	c.State(fmt.Sprintf("%s critical=%v running=%v racing=%v", f.Kind, effCritical, running, racing))
	sig := fmt.Sprintf("%s:running=%v", f.Kind, running)
	if f.Kind == "internal-error" && (!running || racing) {
		sig = "internal-error:environment-not-running-when-handled"
	}
	final := states[len(states)-1]
	if effCritical {
		if f.Kind == "internal-error" && !running {
			// an internal error announced while not running: the statement covers CONFIGURED too
		}
		if final != "ERROR" && final != "" {
			m.viol("C03", "critical-failure-reaches-error", sig, "critical task %s suffered %s at %v (environment %s%s); 150 s later the environment reports %v, never ERROR", f.Victim, f.Kind, f.firedAt, map[bool]string{true: "RUNNING", false: "CONFIGURED"}[running], map[bool]string{true: ", racing with a transition", false: ""}[racing], states)
		}
		if final == "ERROR" && running {
			// the end of the run is recorded
			ended := false
			evMu.Lock()
			for _, ev := range events {
				if ev.runEv && ev.env == e.ID && (ev.trans == "GO_ERROR" || ev.trans == "STOP_ACTIVITY" || ev.trans == "TEARDOWN") {
					ended = true
				}
			}
			evMu.Unlock()
			if !ended {
				m.viol("C03", "end-of-run-recorded", sig, "the run was ended by the failure of %s (%s) but no end-of-run record was published", f.Victim, f.Kind)
			}
		}
	} else {
		// non-critical victim: the state changes only through client requests
		want := map[bool]string{true: "RUNNING", false: "CONFIGURED"}[running]
		if raceReq != nil && raceReq.Err == "" {
			want = raceReq.State
		}
		if raceReq != nil && raceReq.Err != "" {
			// the racing request failed for another reason: nothing asserted
			return
		}
		if f.Kind == "internal-error" {
			sig = "internal-error:acted-upon-regardless-of-criticality"
		}
		if final != want {
			m.viol("C03", "noncritical-failure-ignored", sig, "non-critical task %s suffered %s; the environment went %v, expected to stay %s", f.Victim, f.Kind, states, want)
		}
	}
}

// ---- C18 ----

func (m *multi) runC18() {
	c := m.c
	var wfName string
	for n := range m.wfs {
		wfName = n
	}
	mode := []string{"crash", "reconnect", "reconnect-during-creation"}[c.W(3, "mode")]
	m.sc.Notes = append(m.sc.Notes, "mode="+mode)
	firstFw := ""
	if mode == "reconnect-during-creation" {
		// the connection to the master breaks at a drawn instant while an environment is being
		// created (tasks launched, staging, starting): nothing else goes wrong in this run, so a
		// KILL of one of its tasks before the deployment timeout can only come from the
		// reconciliation that follows the re-subscription
		dropAfter := time.Duration(c.F(5000, "drop-at-ms")) * time.Millisecond
		var e *envRec
		done := make(chan struct{})
		c.S.GoInc(m.rpc().inc, "client", func() {
			e = m.newEnv(wfName)
			close(done)
		})
		simrt.Sleep(dropAfter)
		dropSeq := m.s.mesos.Seq()
		startedAt := c.S.Now() - dropAfter
		c.Count("fault.subscription_dropped_during_creation")
		m.s.mesos.DropSubscription()
		simrt.Recv(done)
		simrt.Sleep(30 * time.Second)
		m.dumpCalls()
		c.NonTrivial = true
		c.State(fmt.Sprintf("reconnect-during-creation created=%v", e.Created))
		limit := startedAt + time.Duration(m.wfs[wfName].DeployTimeout)*time.Second - time.Second
		for _, k := range m.s.mesos.CallsOfType("KILL") {
			if k.Seq <= dropSeq || k.At >= limit {
				continue
			}
			for _, tid := range k.Tasks {
				if st := m.s.mesos.Task(tid); st != nil {
					m.viol("C18", "reconnect-kills-owned", "kill-during-creation:"+st.Mesos.String(), "after a mere reconnection at %v (creation started at %v) task %s, launched for the environment being created, received a KILL at %v; creation returned %q", startedAt+dropAfter, startedAt, tid, k.At, e.CreateErr)
				}
			}
		}
		return
	}
	if mode == "crash" {
		// the core dies at a drawn instant of the environment's life
		crashAfter := time.Duration(c.F(6000, "crash-at-ms")) * time.Millisecond
		var e *envRec
		done := make(chan struct{})
		c.S.GoInc(m.rpc().inc, "client", func() {
			e = m.newEnv(wfName)
			if e.Created && c.W(2, "start") == 1 {
				m.control(e, "START_ACTIVITY")
			}
			if e.Created && c.W(3, "destroy") == 2 {
				m.destroy(e, true, false, true)
			}
			close(done)
		})
		simrt.Sleep(crashAfter)
		for _, cl := range m.s.mesos.CallsOfType("SUBSCRIBE") {
			firstFw = cl.FwID
		}
		aliveBefore := m.s.mesos.AliveTasks()
		crashSeq := m.s.mesos.Seq()
		m.s.crash()
		simrt.Sleep(time.Duration(500+c.W(5000, "down-ms")) * time.Millisecond)
		if c.F(3, "reconcile-lost-after-restart") == 2 {
			// the connection breaks right after SUBSCRIBED: the first RECONCILE of the new life fails
			failed := false
			m.s.mesos.FailCall = func(inc int, typ string) bool {
				if typ == "RECONCILE" && !failed {
					failed = true
					c.Count("fault.reconcile_call_lost")
					c.S.Go("drop-subscription", func() { m.s.mesos.DropSubscription() })
					return true
				}
				return false
			}
		}
		ci := m.s.bootCore()
		if ci.rpc == nil {
			return
		}
		simrt.Sleep(60 * time.Second)
		m.dumpCalls()
		c.NonTrivial = len(aliveBefore) > 0
		c.State(fmt.Sprintf("crash alive=%d", len(aliveBefore)))
		// same framework identity
		subs := m.s.mesos.CallsOfType("SUBSCRIBE")
		last := subs[len(subs)-1]
		if last.Inc == ci.inc && firstFw != "" && !strings.Contains(last.Detail, "requested-framework-id="+firstFw) {
			m.viol("C18", "framework-identity", "new-identity-after-restart", "the restarted core subscribed with %q, the previous life was registered as %s", last.Detail, firstFw)
		}
		// every task of the previous life that Mesos still held alive was killed
		for _, t := range aliveBefore {
			st := m.s.mesos.Task(t.ID)
			if st.LaunchSeq > crashSeq {
				continue
			}
			if st.Alive() && !st.Killed {
				m.viol("C18", "orphan-killed", "orphan-survives:"+st.Mesos.String(), "task %s (%s, %s) of the previous life is still alive 60 s after the restart and was never killed", t.ID, t.Class, st.Mesos)
			}
		}
		// tasks launched by a launch that was in flight at the crash
		for _, t := range m.s.mesos.AliveTasks() {
			if !t.Killed {
				m.viol("C18", "orphan-killed", "orphan-survives:"+t.Mesos.String(), "task %s (%s) is alive and unowned 60 s after the restart", t.ID, t.Class)
			}
		}
		o := m.observe()
		if len(o.envs) != 0 {
			m.viol("C18", "no-environments-after-restart", "listed", "the restarted core lists %d environments", len(o.envs))
		}
		return
	}
	// reconnect without restart: reconciliation answers must not kill owned tasks
	var e *envRec
	if c.W(3, "after-overlapping-teardown") == 2 {
		// the environment was created while the tasks of its predecessor were still being killed
		// (slow KILL calls): what the core knows about its tasks went through that overlap
		a := m.newEnv(wfName)
		if !a.Created {
			return
		}
		m.s.mesos.CallLatency = func(typ string) time.Duration {
			if typ == "KILL" {
				return time.Duration(1+c.W(3, "kill-call-ms")) * 100 * time.Millisecond
			}
			return 0
		}
		var wg simsync.WaitGroup
		wg.Add(1)
		c.S.GoInc(m.rpc().inc, "client-destroy", func() {
			defer wg.Done()
			m.destroy(a, false, false, false)
		})
		simrt.Sleep(time.Duration(c.W(8, "create-after")) * 50 * time.Millisecond)
		e = m.newEnv(wfName)
		wg.Wait()
		m.s.mesos.CallLatency = nil
		if e.Created {
			c.Count("probe.created_during_the_kills_of_its_predecessor")
		}
	} else {
		e = m.newEnv(wfName)
	}
	if !e.Created {
		return
	}
	if c.W(2, "start") == 1 {
		m.control(e, "START_ACTIVITY")
	}
	before := m.observe()
	for _, cl := range m.s.mesos.CallsOfType("SUBSCRIBE") {
		firstFw = cl.FwID
	}
	killsBefore := len(m.s.mesos.CallsOfType("KILL"))
	c.Count("fault.subscription_dropped")
	m.s.mesos.DropSubscription()
	simrt.Sleep(90 * time.Second)
	after := m.observe()
	m.dumpCalls()
	c.NonTrivial = true
	c.State("reconnect")
	if subs := m.s.mesos.CallsOfType("SUBSCRIBE"); len(subs) > 1 {
		if last := subs[len(subs)-1]; !strings.Contains(last.Detail, "requested-framework-id="+firstFw) {
			m.viol("C18", "framework-identity", "new-identity-after-reconnect", "after a connection drop the core re-subscribed with %q, it was registered as %s", last.Detail, firstFw)
		}
	}
	kills := m.s.mesos.CallsOfType("KILL")
	for _, k := range kills[killsBefore:] {
		for _, tid := range k.Tasks {
			if before.owner[tid] == e.ID {
				m.viol("C18", "reconnect-kills-owned", "kill-after-reconnect", "after a mere reconnection task %s, owned by the live environment, received a KILL", tid)
			}
		}
	}
	if before.envs[e.ID] != after.envs[e.ID] && after.envs[e.ID] != "" {
		m.viol("C18", "reconnect-changes-state", before.envs[e.ID]+"->"+after.envs[e.ID], "a mere reconnection moved the environment from %s to %s", before.envs[e.ID], after.envs[e.ID])
	}
}
