// Package hexec is harness H-exec (property C17); see hexec_test.go.
package hexec
