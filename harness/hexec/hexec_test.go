package hexec

import (
	"context"
	"encoding/json"
	"fmt"
	"io"
	stdlog "log"
	"os"
	"path/filepath"
	"regexp"
	"sort"
	"strings"
	"syscall"
	"testing"
	"time"

	"github.com/AliceO2Group/Control/common"
	"github.com/AliceO2Group/Control/common/controlmode"
	"github.com/AliceO2Group/Control/common/utils/uid"
	"github.com/AliceO2Group/Control/core/controlcommands"
	"github.com/AliceO2Group/Control/executor"
	"github.com/AliceO2Group/Control/executor/executorcmd"
	pb "github.com/AliceO2Group/Control/executor/protos"
	mesos "github.com/mesos/mesos-go/api/v1/lib"
	"github.com/mesos/mesos-go/api/v1/lib/encoding"
	mexec "github.com/mesos/mesos-go/api/v1/lib/executor"
	"github.com/mesos/mesos-go/api/v1/lib/executor/calls"
	"github.com/sirupsen/logrus"
	"google.golang.org/grpc"
	"google.golang.org/grpc/codes"
	"google.golang.org/grpc/status"

	"simrt"
	"simrt/simos"
	"verif/hk"
)

// H-exec: the real executor (event loop, handlers, basic / hook / controllable tasks, the real
// RpcClient and transitioners) on a simulated host: simos is the process table (groups, signals,
// zombies), the controlled processes follow drawn behaviour scripts and, for controllable tasks,
// speak OCC through a simulated device; the harness plays the Mesos agent and, through it, the
// core: LAUNCH, transition and trigger messages, KILL, at drawn instants.

// ---------------------------------------------------------------------------------------------
// the agent

type updRec struct {
	at    time.Duration
	state mesos.TaskState
	msg   string
}

type bttRec struct {
	at        time.Duration
	final     mesos.TaskState
	exitCode  int
	voluntary bool
}

type respRec struct {
	at    time.Duration
	name  string
	state string
	err   string
}

type agent struct {
	c       *hk.Ctx
	events  chan mexec.Event
	tasks   map[string]*taskRec
	sendErr int // fail that many UPDATE sends
	nSubs   int
	latency time.Duration
}

type subscription struct {
	a      *agent
	closed chan struct{}
}

func (s *subscription) Decode(u encoding.Unmarshaler) error {
	select {
	case <-s.closed:
		simrt.Yield()
		return io.EOF
	default:
	}
	select {
	case e := <-s.a.events:
		simrt.Yield()
		*(u.(*mexec.Event)) = e
		return nil
	case <-s.closed:
		simrt.Yield()
		return io.EOF
	}
}

type nopResponse struct{}

func (nopResponse) Close() error                      { return nil }
func (nopResponse) Decode(encoding.Unmarshaler) error { return io.EOF }

func (a *agent) push(e mexec.Event) { a.events <- e }

// Send is the executor's channel to the agent (UPDATE and MESSAGE calls).
func (a *agent) Send(ctx context.Context, r calls.Request) (mesos.Response, error) {
	call := r.Call()
	simrt.Yield()
	if a.latency > 0 {
		// the HTTP round trip to the agent: the event loop is busy meanwhile; the agent has the call
		// (and forwards it) half way through
		simrt.Sleep(a.latency / 2)
		defer simrt.Sleep(a.latency - a.latency/2)
	}
	now := a.c.S.Now()
	switch call.Type {
	case mexec.Call_UPDATE:
		st := call.Update.Status
		id := st.TaskID.Value
		if t := a.tasks[id]; t != nil && st.GetState() == mesos.TASK_RUNNING {
			t.ranAttempt = true
		}
		if a.sendErr > 0 {
			a.sendErr--
			a.c.Count("fault.update_send_error")
			a.c.Logf("agent: UPDATE %s %s not delivered (agent unreachable)", id, st.GetState())
			return nil, fmt.Errorf("agent unreachable")
		}
		a.c.Logf("agent: UPDATE %s %s %q", id, st.GetState(), st.GetMessage())
		if t := a.tasks[id]; t != nil {
			t.updates = append(t.updates, updRec{at: now, state: st.GetState(), msg: st.GetMessage()})
		}
		uuid := st.UUID
		tid := st.TaskID
		simrt.AfterFunc(20*time.Millisecond, func() {
			a.push(mexec.Event{Type: mexec.Event_ACKNOWLEDGED, Acknowledged: &mexec.Event_Acknowledged{TaskID: tid, UUID: uuid}})
		})
	case mexec.Call_MESSAGE:
		a.message(call.Message.Data, now)
	}
	return nopResponse{}, nil
}

func (a *agent) message(data []byte, now time.Duration) {
	var m struct {
		Name   string `json:"name"`
		MsgT   string `json:"_messageType"`
		State  string `json:"state"`
		TaskId string `json:"taskId"`
		Error  string `json:"error"`
		Type   int    `json:"type"`
		Origin struct {
			TaskId struct {
				Value string `json:"value"`
			} `json:"taskId"`
		} `json:"origin"`
		ExitCode  int             `json:"exitCode"`
		Voluntary bool            `json:"voluntaryTermination"`
		Final     mesos.TaskState `json:"finalMesosState"`
	}
	if err := json.Unmarshal(data, &m); err != nil {
		a.c.Logf("agent: MESSAGE undecodable: %v", err)
		return
	}
	switch {
	case m.Name == "MesosCommand_Transition" || m.Name == "MesosCommand_TriggerHook":
		a.c.Logf("agent: response %s task=%s state=%s err=%q", m.Name, m.TaskId, m.State, m.Error)
		if t := a.tasks[m.TaskId]; t != nil {
			t.responses = append(t.responses, respRec{at: now, name: m.Name, state: m.State, err: m.Error})
		}
	case m.MsgT == "DeviceEvent" || m.Origin.TaskId.Value != "":
		id := m.Origin.TaskId.Value
		a.c.Logf("agent: device event type=%d task=%s final=%s exit=%d voluntary=%v", m.Type, id, m.Final, m.ExitCode, m.Voluntary)
		if t := a.tasks[id]; t != nil && pb.DeviceEventType(m.Type) == pb.DeviceEventType_BASIC_TASK_TERMINATED {
			t.btt = append(t.btt, bttRec{at: now, final: m.Final, exitCode: m.ExitCode, voluntary: m.Voluntary})
		}
	default:
		a.c.Logf("agent: MESSAGE %s", firstN(string(data), 80))
	}
}

func firstN(s string, n int) string {
	if len(s) > n {
		return s[:n]
	}
	return s
}

// ---------------------------------------------------------------------------------------------
// the simulated device (OCC server inside a controlled process)

var directNext = map[string]map[string]string{
	"STANDBY":    {"CONFIGURE": "CONFIGURED", "EXIT": "DONE"},
	"CONFIGURED": {"START": "RUNNING", "RESET": "STANDBY", "EXIT": "DONE"},
	"RUNNING":    {"STOP": "CONFIGURED"},
	"ERROR":      {"EXIT": "DONE"},
	"DONE":       {},
}

type transBeh struct {
	Kind  string        `json:"kind"` // ok, fail, hang, crash
	Delay time.Duration `json:"delay"`
}

type devSpec struct {
	Port          uint64              `json:"port"`
	ListenAfter   time.Duration       `json:"listen_after"` // <0: never (the program does not speak OCC)
	ReadyAfter    time.Duration       `json:"ready_after"`  // <0: never leaves its start-up state
	StartupState  string              `json:"startup_state"`
	ReportPid     bool                `json:"report_pid"`
	Beh           map[string]transBeh `json:"transitions"`
	ExitAfterDone time.Duration       `json:"exit_after_done"` // <0: stays after reaching DONE
	ExitCode      int                 `json:"exit_code_after_done"`
	DevIndex      int                 `json:"device_process"` // which process of the group is the device
}

type device struct {
	h         *world
	spec      *devSpec
	proc      *simos.Proc
	state     string
	ready     bool
	doneAt    time.Duration // when it reached DONE on request; -1 = never
	listening chan struct{}
	streams   []*evStream
}

var errUnavailable = status.Error(codes.Unavailable, "transport is closing")

func (d *device) dead() bool {
	select {
	case <-d.proc.Dead():
		return true
	default:
		return false
	}
}

func (d *device) visible() string {
	if !d.ready {
		return "UNDEFINED"
	}
	return d.state
}

func (d *device) GetState(ctx context.Context, _ *pb.GetStateRequest, _ ...grpc.CallOption) (*pb.GetStateReply, error) {
	simrt.Yield()
	if d.dead() {
		return nil, errUnavailable
	}
	pid := int32(0)
	if d.spec.ReportPid {
		pid = int32(d.proc.Pid)
	}
	d.h.c.Debugf("device %d: GetState -> %s pid=%d", d.proc.Pid, d.visible(), pid)
	return &pb.GetStateReply{State: d.visible(), Pid: pid}, nil
}

func (d *device) Transition(ctx context.Context, in *pb.TransitionRequest, _ ...grpc.CallOption) (*pb.TransitionReply, error) {
	simrt.Yield()
	if d.dead() {
		return nil, errUnavailable
	}
	ev := in.GetTransitionEvent()
	cur := d.visible()
	next, ok := directNext[cur][ev]
	if !ok || in.GetSrcState() != cur {
		return &pb.TransitionReply{Trigger: pb.StateChangeTrigger_EXECUTOR, State: cur, TransitionEvent: ev, Ok: false}, nil
	}
	b := d.spec.Beh[ev]
	d.h.c.Debugf("device %d: Transition %s from %s: %s", d.proc.Pid, ev, cur, b.Kind)
	d.h.c.Count("device.transition." + b.Kind)
	if b.Kind != "ok" {
		d.h.c.Count("fault.device_transition_" + b.Kind)
	} else if b.Delay > time.Second {
		d.h.c.Count("fault.device_transition_slow")
	}
	switch b.Kind {
	case "hang":
		<-d.proc.Dead()
		simrt.Yield()
		return nil, errUnavailable
	case "crash":
		simrt.Sleep(b.Delay)
		d.h.os.Exit(d.proc, 134)
		return nil, errUnavailable
	}
	simrt.Sleep(b.Delay)
	if d.dead() {
		return nil, errUnavailable
	}
	if b.Kind == "fail" {
		d.state = "ERROR"
		return &pb.TransitionReply{Trigger: pb.StateChangeTrigger_DEVICE_ERROR, State: "ERROR", TransitionEvent: ev, Ok: false}, nil
	}
	d.state = next
	if next == "DONE" {
		d.doneAt = d.h.c.S.Now()
		if d.spec.ExitAfterDone >= 0 {
			p, code := d.proc, d.spec.ExitCode
			simrt.AfterFunc(d.spec.ExitAfterDone, func() { d.h.os.Exit(p, code) })
		}
	}
	return &pb.TransitionReply{Trigger: pb.StateChangeTrigger_EXECUTOR, State: next, TransitionEvent: ev, Ok: true}, nil
}

type evStream struct {
	grpc.ClientStream
	d *device
}

func (s *evStream) Recv() (*pb.EventStreamReply, error) {
	<-s.d.proc.Dead()
	simrt.Yield()
	return nil, io.EOF
}

func (d *device) EventStream(context.Context, *pb.EventStreamRequest, ...grpc.CallOption) (pb.Occ_EventStreamClient, error) {
	simrt.Yield()
	if d.dead() {
		return nil, errUnavailable
	}
	s := &evStream{d: d}
	d.streams = append(d.streams, s)
	return s, nil
}

func (d *device) StateStream(context.Context, *pb.StateStreamRequest, ...grpc.CallOption) (pb.Occ_StateStreamClient, error) {
	return nil, status.Error(codes.Unimplemented, "not simulated")
}

// ---------------------------------------------------------------------------------------------
// scenario

type opSpec struct {
	Op      string        `json:"op"` // transition events, "TRIGGER", "KILL", "KILL-UNKNOWN"
	Gap     time.Duration `json:"gap"`
	NoAwait bool          `json:"no_await,omitempty"`
}

type taskSpec struct {
	ID      string           `json:"id"`
	Kind    string           `json:"kind"` // basic, hook, controllable
	Shell   bool             `json:"shell"`
	Timeout time.Duration    `json:"timeout,omitempty"`
	Procs   []simos.ProcSpec `json:"processes"`
	StartE  bool             `json:"start_fails,omitempty"`
	Dev     *devSpec         `json:"device,omitempty"`
	LaunchT time.Duration    `json:"launch_at"`
	Ops     []opSpec         `json:"ops"`
}

type taskRec struct {
	spec       *taskSpec
	info       mesos.TaskInfo
	groups     []*simos.Group
	dev        *device
	updates    []updRec
	btt        []bttRec
	responses  []respRec
	believed   string
	ranAttempt bool // the executor reported TASK_RUNNING (delivered or not)
	launched   time.Duration
	kills      []time.Duration // KILL events handed to the executor
	stops      []time.Duration // STOP requests handed to the executor (basic tasks)
	done       chan struct{}
}

type world struct {
	c     *hk.Ctx
	os    *simos.World
	ag    *agent
	tasks []*taskRec
	byCmd map[string]*taskRec
	envId uid.ID
	sc    *scenario
}

var gaps = []time.Duration{0, 50 * time.Millisecond, 400 * time.Millisecond, 3 * time.Second, 40 * time.Second}

// faultDen is the per-run fault intensity: an adverse choice is considered once in faultDen draws.
var faultDen = 4

// fz draws an adverse choice in [0,n): 0 (benign) most of the time.
func fz(c *hk.Ctx, n int, label string) int {
	if n <= 1 || c.F(faultDen, label+"?") != faultDen-1 {
		return 0
	}
	return 1 + c.F(n-1, label)
}

func drawDisp(c *hk.Ctx, label string, ignoreOK bool) simos.Disposition {
	n := 4
	if !ignoreOK {
		n = 3
	}
	switch fz(c, n, label) {
	case 0:
		return simos.Disposition{ExitCode: -1}
	case 1:
		return simos.Disposition{Delay: time.Second, ExitCode: 0}
	case 2:
		return simos.Disposition{Delay: 2500 * time.Millisecond, ExitCode: -1}
	default:
		return simos.Disposition{Ignore: true}
	}
}

// forceBasic: lock-step mode wants basic tasks only
var forceBasic bool

func genTask(c *hk.Ctx, i int) *taskSpec {
	t := &taskSpec{ID: fmt.Sprintf("T%d", i+1)}
	t.Kind = []string{"controllable", "basic", "hook"}[c.W(3, "kind")]
	if forceBasic {
		t.Kind = "basic"
	}
	t.Shell = c.W(2, "shell") == 1
	t.LaunchT = []time.Duration{0, 100 * time.Millisecond, 2 * time.Second}[c.W(3, "launch-at")]
	lead := simos.ProcSpec{Name: "main", ExitAfter: -1, Follows: -1}
	lead.OnTerm = drawDisp(c, "on-term", true)
	lead.OnInt = drawDisp(c, "on-int", true)
	if t.Kind != "controllable" {
		lead.ExitAfter = []time.Duration{-1, 100 * time.Millisecond, 2 * time.Second, 30 * time.Second}[c.W(4, "lifetime")]
		switch fz(c, 3, "exit-code") {
		case 1:
			lead.ExitCode = 1
		case 2:
			lead.ExitSignal = syscall.SIGSEGV // it crashes
		}
		if t.Kind == "hook" {
			t.Timeout = []time.Duration{0, 5 * time.Second, 20 * time.Second}[c.W(3, "hook-timeout")]
		}
	}
	t.Procs = []simos.ProcSpec{lead}
	t.StartE = c.F(12, "start-fails") == 11
	devIdx := 0
	if t.Kind == "controllable" && t.Shell && c.W(2, "shell-wraps-device") == 1 {
		// /bin/sh stays as the group leader and waits for the device it started
		sh := simos.ProcSpec{Name: "sh", ExitAfter: -1, Follows: 1, FollowStatus: true,
			OnTerm: simos.Disposition{ExitCode: -1}, OnInt: simos.Disposition{ExitCode: -1}}
		if fz(c, 2, "shell-ignores-term") == 1 {
			sh.OnTerm = simos.Disposition{Ignore: true} // a shell waiting for its child defers traps
		}
		lead.Name = "device"
		t.Procs = []simos.ProcSpec{sh, lead}
		devIdx = 1
	}
	switch fz(c, 4, "helper") {
	case 1: // a helper that goes when the main process goes
		t.Procs = append(t.Procs, simos.ProcSpec{Name: "helper", ExitAfter: -1, Follows: devIdx, FollowDelay: 100 * time.Millisecond,
			OnTerm: simos.Disposition{ExitCode: -1}, OnInt: simos.Disposition{ExitCode: -1}})
	case 2: // a forked child that outlives the main process unless signalled
		t.Procs = append(t.Procs, simos.ProcSpec{Name: "child", ExitAfter: -1, Follows: -1,
			OnTerm: simos.Disposition{ExitCode: -1}, OnInt: simos.Disposition{ExitCode: -1}})
	case 3: // a forked child that ignores TERM and INT
		t.Procs = append(t.Procs, simos.ProcSpec{Name: "stubborn-child", ExitAfter: -1, Follows: -1,
			OnTerm: simos.Disposition{Ignore: true}, OnInt: simos.Disposition{Ignore: true}})
	}
	if t.Kind == "controllable" {
		d := &devSpec{Port: uint64(47100 + i), DevIndex: devIdx, StartupState: "STANDBY", Beh: map[string]transBeh{}}
		d.ListenAfter = []time.Duration{100 * time.Millisecond, 3 * time.Second, -1}[fz(c, 3, "listen")]
		d.ReadyAfter = []time.Duration{200 * time.Millisecond, 5 * time.Second, -1}[fz(c, 3, "ready")]
		d.StartupState = []string{"STANDBY", "ERROR", "DONE"}[fz(c, 3, "startup-state")]
		d.ReportPid = c.W(4, "report-pid") != 3
		d.ExitAfterDone = []time.Duration{100 * time.Millisecond, 2 * time.Second, -1}[fz(c, 3, "exit-after-done")]
		d.ExitCode = fz(c, 2, "exit-code-after-done")
		for _, ev := range []string{"CONFIGURE", "START", "STOP", "RESET", "EXIT"} {
			switch fz(c, 6, "beh:"+ev) {
			case 0:
				d.Beh[ev] = transBeh{Kind: "ok", Delay: 50 * time.Millisecond}
			case 1:
				d.Beh[ev] = transBeh{Kind: "ok", Delay: 3 * time.Second}
			case 2:
				d.Beh[ev] = transBeh{Kind: "ok", Delay: 7 * time.Second}
			case 3:
				d.Beh[ev] = transBeh{Kind: "fail", Delay: 200 * time.Millisecond}
			case 4:
				d.Beh[ev] = transBeh{Kind: "hang"}
			default:
				d.Beh[ev] = transBeh{Kind: "crash", Delay: 100 * time.Millisecond}
			}
		}
		t.Dev = d
	}
	// what the core asks of it
	n := c.W(6, "n-ops")
	state := "STANDBY"
	if c.W(3, "run-cycles") == 2 {
		// several runs of one task: START, STOP, START again ...
		for _, ev := range []string{"CONFIGURE", "START", "STOP", "START", "STOP"}[:4+c.W(2, "last-stop")] {
			t.Ops = append(t.Ops, opSpec{Op: ev, Gap: gaps[c.W(3, "short-gap")]}) // the core does not wait between them
		}
		n = 0
	}
	for k := 0; k < n; k++ {
		var cand []string
		for ev := range directNext[state] {
			if ev != "EXIT" {
				cand = append(cand, ev)
			}
		}
		sort.Strings(cand)
		if t.Kind == "hook" {
			cand = append(cand, "TRIGGER")
		}
		if len(cand) == 0 {
			break
		}
		ev := cand[c.W(len(cand), "op")]
		op := opSpec{Op: ev, Gap: gaps[c.W(len(gaps), "gap")]}
		if ev != "TRIGGER" {
			state = directNext[state][ev]
		}
		t.Ops = append(t.Ops, op)
	}
	switch c.W(8, "kill") {
	case 0: // no kill: the task is left alone
	default:
		t.Ops = append(t.Ops, opSpec{Op: "KILL", Gap: gaps[c.W(len(gaps), "kill-gap")]})
		if t.Kind == "hook" && c.W(3, "trigger-after-kill") == 2 {
			t.Ops = append(t.Ops, opSpec{Op: "TRIGGER", Gap: gaps[c.W(3, "gap")]}) // a DESTROY hook
		}
		switch c.F(5, "kill-again") {
		case 3:
			t.Ops = append(t.Ops, opSpec{Op: "KILL", Gap: gaps[c.W(len(gaps), "kill-gap")]})
		case 4:
			t.Ops = append(t.Ops, opSpec{Op: "KILL-UNKNOWN", Gap: gaps[c.W(3, "gap")]})
		}
	}
	return t
}

var taskRe = regexp.MustCompile(`task-(T\d+)`)

func (h *world) specFor(path string, args, env []string) *simos.Spec {
	m := taskRe.FindStringSubmatch(strings.Join(args, " "))
	if m == nil {
		return nil
	}
	t := h.byCmd[m[1]]
	if t == nil {
		return nil
	}
	if t.spec.StartE {
		h.c.Count("fault.exec_fails")
		return &simos.Spec{StartErr: fmt.Errorf("fork/exec %s: %w", path, syscall.ENOENT)}
	}
	return &simos.Spec{Procs: t.spec.Procs}
}

func (h *world) onStart(g *simos.Group) {
	m := taskRe.FindStringSubmatch(strings.Join(g.Procs[0].Args, " "))
	if m == nil {
		return
	}
	t := h.byCmd[m[1]]
	g.Tag = t.spec.ID
	t.groups = append(t.groups, g)
	h.c.Logf("os: %s started group %d (%d processes)", t.spec.ID, g.Pgid, len(g.Procs))
	for _, p := range g.Procs {
		if p.Spec.OnTerm.Ignore {
			h.c.Count("fault.process_ignores_TERM")
		}
		if p.Spec.OnInt.Ignore {
			h.c.Count("fault.process_ignores_INT")
		}
		if p.Index > 0 && p.Spec.Follows < 0 {
			h.c.Count("fault.forked_child_outlives_main")
		}
	}
	if ds := t.spec.Dev; ds != nil {
		if ds.ReadyAfter < 0 || ds.StartupState != "STANDBY" {
			h.c.Count("fault.device_never_ready")
		}
		if !ds.ReportPid {
			h.c.Count("fault.device_reports_no_pid")
		}
	}
	if ds := t.spec.Dev; ds != nil {
		d := &device{h: h, spec: ds, proc: g.Procs[ds.DevIndex], state: ds.StartupState, doneAt: -1, listening: make(chan struct{})}
		t.dev = d
		if ds.ListenAfter >= 0 {
			simrt.AfterFunc(ds.ListenAfter, func() {
				if !d.dead() {
					close(d.listening)
				}
			})
			if ds.ReadyAfter >= 0 {
				simrt.AfterFunc(ds.ListenAfter+ds.ReadyAfter, func() { d.ready = true })
			}
		}
	}
}

func (h *world) dial(port uint64, timeout time.Duration) pb.OccClient {
	var t *taskRec
	for _, x := range h.tasks {
		if x.spec.Dev != nil && x.spec.Dev.Port == port {
			t = x
		}
	}
	if t == nil || t.dev == nil {
		simrt.Sleep(timeout)
		return nil
	}
	select {
	case <-t.dev.listening:
		simrt.Yield()
		return t.dev
	case <-time.After(timeout):
		simrt.Yield()
		h.c.Count("fault.control_port_never_answers")
		return nil
	}
}

func (h *world) taskInfo(t *taskSpec) mesos.TaskInfo {
	value := "/opt/o2/bin/task-" + t.ID
	stdout := "none"
	tci := common.TaskCommandInfo{
		CommandInfo: common.CommandInfo{Shell: &t.Shell, Value: &value, Arguments: []string{"--id", t.ID}, Stdout: &stdout, Stderr: &stdout},
		Timeout:     t.Timeout,
	}
	switch t.Kind {
	case "basic":
		tci.ControlMode = controlmode.BASIC
	case "hook":
		tci.ControlMode = controlmode.HOOK
	default:
		tci.ControlMode = controlmode.DIRECT
		tci.ControlPort = t.Dev.Port
	}
	data, err := json.Marshal(&tci)
	if err != nil {
		panic(err)
	}
	env := h.envId.String()
	det := "TST"
	return mesos.TaskInfo{
		Name:     "class-" + t.ID + "#" + t.ID,
		TaskID:   mesos.TaskID{Value: t.ID},
		AgentID:  mesos.AgentID{Value: "agent-1"},
		Executor: &mesos.ExecutorInfo{ExecutorID: mesos.ExecutorID{Value: "exec-1"}},
		Data:     data,
		Labels:   &mesos.Labels{Labels: []mesos.Label{{Key: "environmentId", Value: &env}, {Key: "detector", Value: &det}}},
	}
}

func (h *world) target(t *taskRec) controlcommands.MesosCommandTarget {
	return controlcommands.MesosCommandTarget{AgentId: t.info.AgentID, ExecutorId: t.info.Executor.ExecutorID, TaskId: t.info.TaskID}
}

// awaitResponse waits until the task has n responses or the limit passed.
func (h *world) awaitResponse(t *taskRec, n int, limit time.Duration) bool {
	deadline := h.c.S.Now() + limit
	for len(t.responses) < n && h.c.S.Now() < deadline {
		simrt.Sleep(50 * time.Millisecond)
	}
	return len(t.responses) >= n
}

// script is the core's side of one task.
func (h *world) script(t *taskRec) {
	defer close(t.done)
	c := h.c
	simrt.Sleep(t.spec.LaunchT)
	t.launched = c.S.Now()
	c.Logf("core: LAUNCH %s (%s)", t.spec.ID, t.spec.Kind)
	h.ag.push(mexec.Event{Type: mexec.Event_LAUNCH, Launch: &mexec.Event_Launch{Task: t.info}})
	t.believed = "STANDBY"
	for _, op := range t.spec.Ops {
		simrt.Sleep(op.Gap)
		switch op.Op {
		case "KILL":
			c.Logf("core: KILL %s", t.spec.ID)
			if len(t.kills) > 0 {
				c.Count("fault.repeated_kill")
			}
			t.kills = append(t.kills, c.S.Now())
			h.ag.push(mexec.Event{Type: mexec.Event_KILL, Kill: &mexec.Event_Kill{TaskID: t.info.TaskID}})
		case "KILL-UNKNOWN":
			c.Count("fault.kill_of_unknown_task")
			c.Logf("core: KILL of a task this executor does not have")
			h.ag.push(mexec.Event{Type: mexec.Event_KILL, Kill: &mexec.Event_Kill{TaskID: mesos.TaskID{Value: "T-unknown"}}})
		case "TRIGGER":
			cmd := controlcommands.NewMesosCommand_TriggerHook(h.envId, []controlcommands.MesosCommandTarget{h.target(t)})
			data, _ := json.Marshal(cmd.MakeSingleTarget(h.target(t)))
			c.Logf("core: TRIGGER %s", t.spec.ID)
			n := len(t.responses)
			h.ag.push(mexec.Event{Type: mexec.Event_MESSAGE, Message: &mexec.Event_Message{Data: data}})
			h.awaitResponse(t, n+1, 2*time.Second)
		default:
			src := t.believed
			dst := directNext[src][op.Op]
			if dst == "" {
				continue // the core does not ask for a transition that is invalid in the state it knows
			}
			cmd := controlcommands.NewMesosCommand_Transition(h.envId, []controlcommands.MesosCommandTarget{h.target(t)}, src, op.Op, dst, nil)
			data, _ := json.Marshal(cmd.MakeSingleTarget(h.target(t)))
			c.Logf("core: %s %s (%s -> %s)", op.Op, t.spec.ID, src, dst)
			if op.Op == "STOP" && t.spec.Kind == "basic" {
				t.stops = append(t.stops, c.S.Now())
			}
			n := len(t.responses)
			h.ag.push(mexec.Event{Type: mexec.Event_MESSAGE, Message: &mexec.Event_Message{Data: data}})
			if op.NoAwait {
				t.believed = dst
				continue
			}
			if h.awaitResponse(t, n+1, 20*time.Second) {
				r := t.responses[len(t.responses)-1]
				if r.err == "" && r.state != "" {
					t.believed = r.state
				} else if r.state != "" {
					t.believed = r.state
				}
			}
		}
	}
}

// ---------------------------------------------------------------------------------------------
// the run

type scenario struct {
	Tasks       []*taskSpec   `json:"tasks"`
	UpdateFails int           `json:"update_send_failures"`
	SendLatency time.Duration `json:"agent_call_latency"`
	FaultDen    int           `json:"fault_one_in"`
}

func isTerminal(s mesos.TaskState) bool {
	switch s {
	case mesos.TASK_FINISHED, mesos.TASK_FAILED, mesos.TASK_KILLED, mesos.TASK_LOST, mesos.TASK_ERROR, mesos.TASK_DROPPED, mesos.TASK_GONE:
		return true
	}
	return false
}

var panicFrame = regexp.MustCompile(`(?m)^github\.com/AliceO2Group/Control[^/\s]*/(\S+)\([^()\n]*\)\n\t(\S+?):(\d+)`)

// panicSiteOf names the call site of a panic in the code under test: the function and the text
// of the statement (from the instrumented sources the binary was built from), which survives
// unrelated edits that shift line numbers.
func panicSiteOf(stack string) string {
	m := panicFrame.FindStringSubmatch(stack)
	if m == nil {
		return "unknown"
	}
	fn := m[1]
	if i := strings.LastIndex(fn, "/"); i >= 0 {
		fn = fn[i+1:]
	}
	file := m[2]
	if i := strings.Index(file, "AliceO2Group/Control"); i >= 0 {
		file = file[i+len("AliceO2Group/Control"):]
		if j := strings.Index(file, "/"); j >= 0 {
			file = file[j+1:]
		}
	}
	src := os.Getenv("SIM_SRC")
	if src == "" {
		panic("hexec: SIM_SRC is not set (run through vcheck)")
	}
	b, err := os.ReadFile(filepath.Join(src, file))
	if err != nil {
		panic(fmt.Sprintf("hexec: cannot read %s under SIM_SRC: %v", file, err))
	}
	lines := strings.Split(string(b), "\n")
	var ln int
	fmt.Sscan(m[3], &ln)
	stmt := ""
	if ln >= 1 && ln <= len(lines) {
		stmt = strings.Join(strings.Fields(lines[ln-1]), "")
	}
	if len(stmt) > 48 {
		stmt = stmt[:48]
	}
	stmt = strings.NewReplacer(",", ";", ":", ".").Replace(stmt)
	return fn + "@" + stmt
}

func onPanic(c *hk.Ctx, id, inc int, p any, stack string) {
	if inc == 0 || !strings.Contains(stack, "AliceO2Group/Control") {
		// not the executor: harness trouble must be loud
		panic(fmt.Sprintf("hexec: panic in harness goroutine %d: %v\n%s", id, p, stack))
	}
	site := panicSiteOf(stack)
	c.Logf("EXECUTOR CRASH: panic at %s: %v", site, p)
	c.Debugf("%s", stack)
	c.Violate("executor-survives", "panic:"+site, "the executor process panics at %s: %v", site, p)
	c.Count("executor.crashed")
	c.S.Crash(inc)
}

func body(c *hk.Ctx) {
	logrus.SetOutput(io.Discard)
	logrus.SetLevel(logrus.PanicLevel)
	stdlog.SetOutput(io.Discard)
	h := &world{c: c, os: simos.NewWorld(), byCmd: map[string]*taskRec{}, envId: uid.ID("2rE9AV3m1HL")}
	simos.Install(h.os)
	h.os.SpecFor = h.specFor
	h.os.OnStart = h.onStart
	executorcmd.DialForVerif = h.dial
	h.ag = &agent{c: c, events: make(chan mexec.Event, 4096), tasks: map[string]*taskRec{}}

	sc := &scenario{}
	faultDen = []int{3, 6, 12}[c.W(3, "fault-intensity")]
	sc.FaultDen = faultDen
	n := 1 + c.W(3, "n-tasks")
	// lock-step mode: several basic tasks of one environment are started and stopped together, run
	// after run, so that the event loop is busy with the messages of one while the next request for
	// another arrives
	lockStep := c.W(4, "lock-step") == 3
	var stepGaps []time.Duration
	forceBasic = lockStep
	if lockStep {
		n = 2 + c.W(2, "n-tasks-lock-step")
		for k := 0; k < 6; k++ {
			stepGaps = append(stepGaps, gaps[c.W(3, "step-gap")])
		}
	}
	for i := 0; i < n; i++ {
		ts := genTask(c, i)
		if lockStep && ts.Kind == "basic" {
			ts.LaunchT = 0
			ts.Ops = ts.Ops[:0]
			for k, ev := range []string{"CONFIGURE", "START", "STOP", "START", "STOP", "KILL"} {
				ts.Ops = append(ts.Ops, opSpec{Op: ev, Gap: stepGaps[k]})
			}
		}
		sc.Tasks = append(sc.Tasks, ts)
		tr := &taskRec{spec: ts, done: make(chan struct{})}
		tr.info = h.taskInfo(ts)
		h.tasks = append(h.tasks, tr)
		h.byCmd[ts.ID] = tr
		h.ag.tasks[ts.ID] = tr
	}
	if c.F(10, "update-send-fails") == 9 {
		sc.UpdateFails = 1 + c.F(2, "how-many")
		h.ag.sendErr = sc.UpdateFails
	}
	sc.SendLatency = []time.Duration{0, 2 * time.Millisecond, 150 * time.Millisecond}[c.W(3, "agent-latency")]
	if lockStep {
		sc.SendLatency = 150 * time.Millisecond
	}
	h.ag.latency = sc.SendLatency
	c.Scenario = sc
	h.sc = sc
	c.NonTrivial = true

	// the executor process
	inc := c.S.NewIncarnation()
	ex := executor.NewExecutorForVerif(h.ag)
	c.S.GoInc(inc, "executor-run", func() {
		for {
			sub := &subscription{a: h.ag, closed: make(chan struct{})}
			h.ag.nSubs++
			h.ag.push(mexec.Event{Type: mexec.Event_SUBSCRIBED, Subscribed: &mexec.Event_Subscribed{
				ExecutorInfo:  mesos.ExecutorInfo{ExecutorID: mesos.ExecutorID{Value: "exec-1"}},
				FrameworkInfo: mesos.FrameworkInfo{Name: "aliecs"},
				AgentInfo:     mesos.AgentInfo{Hostname: "host-1"},
			}})
			err := ex.EventLoop(sub)
			close(sub.closed)
			c.Logf("executor: event loop ended: %v", err)
			c.Count("executor.event_loop_exit")
			if ex.ShouldQuit() {
				return
			}
			simrt.Sleep(time.Second) // Run re-subscribes after a backoff (checkpointing is on)
		}
	})

	for _, t := range h.tasks {
		t := t
		c.S.Go("core-"+t.spec.ID, func() { h.script(t) })
	}
	for _, t := range h.tasks {
		simrt.Recv(t.done)
	}
	// every escalation is over well within this
	simrt.Sleep(120 * time.Second)

	// liveness probe: a fresh hook task must be reported RUNNING
	if !c.Violated() {
		ps := &taskSpec{ID: "T9", Kind: "hook", Procs: []simos.ProcSpec{{Name: "probe", ExitAfter: 0, Follows: -1}}}
		pr := &taskRec{spec: ps, done: make(chan struct{})}
		pr.info = h.taskInfo(ps)
		h.byCmd["T9"] = pr
		h.ag.tasks["T9"] = pr
		h.ag.sendErr = 0
		h.ag.push(mexec.Event{Type: mexec.Event_LAUNCH, Launch: &mexec.Event_Launch{Task: pr.info}})
		simrt.Sleep(5 * time.Second)
		ok := false
		for _, u := range pr.updates {
			if u.state == mesos.TASK_RUNNING {
				ok = true
			}
		}
		if !ok {
			c.Violate("executor-survives", "hang:event-loop", "the executor does not serve a LAUNCH any more: no TASK_RUNNING for a fresh hook task within 5 s (%d events unread)", len(h.ag.events))
		}
	}
	if h.os.SelfSignalled {
		c.Violate("executor-survives", "signals-itself", "the executor sent a signal to pid 0, 1 or -1")
	}
	h.check()
}

func (h *world) check() {
	c := h.c
	if c.Stats["executor.crashed"] > 0 {
		return // the executor is gone: nothing it would have done later can be judged
	}
	end := c.S.Now()
	for _, t := range h.tasks {
		id, kind := t.spec.ID, t.spec.Kind
		// O1: at most one terminal status, nothing after it
		term := -1
		for i, u := range t.updates {
			if term >= 0 {
				what := "after-terminal"
				if isTerminal(u.state) {
					what = "second-terminal"
				}
				c.Violate("one-terminal-status", fmt.Sprintf("%s:%s:%s-then-%s", what, kind, t.updates[term].state, u.state),
					"task %s (%s): status %s at %v follows the terminal status %s at %v", id, kind, u.state, u.at, t.updates[term].state, t.updates[term].at)
				break
			}
			if isTerminal(u.state) {
				term = i
			}
		}
		if len(t.btt) > len(t.groups) {
			c.Violate("one-terminal-status", "extra-termination-event:"+kind, "task %s: %d BASIC_TASK_TERMINATED events for %d started processes", id, len(t.btt), len(t.groups))
		}
		c.Count("tasks." + kind)
		if term >= 0 {
			c.Count("terminal." + kind + "." + t.updates[term].state.String())
		}
		// O2: killed on request => KILLED or FINISHED, not FAILED. Decided only where the request
		// is the unambiguous reason for the child's end: it was ended by a signal the executor sent,
		// or it left after the executor had walked it to DONE.
		for gi, g := range t.groups {
			lead := g.Procs[0]
			st, _, cause, died := h.os.Snapshot(lead)
			if st == simos.Running {
				continue
			}
			requested := ""
			if cause == "signal" {
				requested = "signalled"
			} else if t.dev != nil && t.dev.doneAt >= 0 && len(t.kills) > 0 && t.dev.doneAt >= t.kills[0] {
				requested = "walked-to-DONE"
			}
			if requested == "" {
				continue
			}
			c.Count("children.ended_on_request." + requested)
			if kind == "controllable" {
				for _, u := range t.updates {
					if u.state == mesos.TASK_FAILED && u.msg == "" && u.at >= died && len(t.kills) > 0 && t.kills[0] <= died {
						c.Violate("killed-not-failed", "failed-after-kill:controllable:"+requested,
							"task %s was killed on request (KILL at %v, child %s and gone at %v) and is reported TASK_FAILED", id, t.kills[0], requested, died)
					}
				}
			} else if gi < len(t.btt) {
				b := t.btt[gi]
				if b.final == mesos.TASK_FAILED && (len(t.stops) > 0 || len(t.kills) > 0) {
					c.Violate("killed-not-failed", "failed-after-stop:"+kind,
						"task %s (%s): its child was ended by the executor's signal on request and BASIC_TASK_TERMINATED says TASK_FAILED", id, kind)
				}
			}
		}
		// O3: no survivors 60 s after a STOP of a basic task or a KILL of any task
		var since time.Duration = -1
		why := ""
		if len(t.kills) > 0 {
			since, why = t.kills[0], "KILL"
		}
		if len(t.stops) > 0 {
			// a later START legitimately starts a new child: take the last STOP not followed by one
			last := t.stops[len(t.stops)-1]
			restarted := false
			for _, g := range t.groups {
				if g.Procs[0].Started > last {
					restarted = true
				}
			}
			if !restarted && (since < 0 || last < since) {
				since, why = last, "STOP"
			}
		}
		wasRunning := t.ranAttempt
		if since >= 0 && end-since >= 60*time.Second {
			for _, g := range t.groups {
				if g.Procs[0].Started > since {
					continue // e.g. a DESTROY hook triggered after the kill
				}
				alive := h.os.Living(g)
				if len(alive) == 0 {
					continue
				}
				var names []string
				who := "children-only"
				for _, p := range g.Procs {
					if s, _, _, _ := h.os.Snapshot(p); s == simos.Running {
						names = append(names, p.Spec.Name)
						if p.Index == 0 || (t.spec.Dev != nil && p.Index == t.spec.Dev.DevIndex) {
							who = "main"
						}
					}
				}
				// survivors that are only forked children: one family whatever the task went through;
				// a surviving main process is told apart by what the task had reached
				sig := fmt.Sprintf("alive-after-%s:%s:%s:signals-%s", why, kind, who, h.signalClass(g, since))
				if who == "main" {
					ready := "never-running"
					if wasRunning {
						ready = "was-running"
					}
					if t.spec.Dev != nil && !t.spec.Dev.ReportPid {
						ready += "+pid-unreported"
					}
					sig = fmt.Sprintf("alive-after-%s:%s:main:%s:signals-%s", why, kind, ready, h.signalClass(g, since))
				}
				c.Violate("no-survivors", sig,
					"task %s (%s): %v after the %s, processes %v (%s) of group %d are still running; signals sent: %s",
					id, kind, end-since, why, alive, strings.Join(names, ","), g.Pgid, h.signalsFor(g))
			}
		}
		// O6: a task killed on request ends with a terminal status
		if len(t.kills) > 0 && end-t.kills[0] >= 60*time.Second && term < 0 && h.sc.UpdateFails == 0 {
			started := "child-never-started"
			if len(t.groups) > 0 {
				started = "child-gone"
				if st, _, _, _ := h.os.Snapshot(t.groups[len(t.groups)-1].Procs[0]); st == simos.Running {
					started = "" // reported by the survivors oracle
				}
			}
			if started != "" {
				c.Violate("one-terminal-status", fmt.Sprintf("no-terminal-after-kill:%s:%s", kind, started),
					"task %s (%s): %v after the KILL no terminal status was reported (statuses: %v)", id, kind, end-t.kills[0], t.updates)
			}
		}
	}
	c.NonTrivial = true
	c.State(h.fingerprint())
}

// signalClass summarises what the executor sent to the group since the request.
func (h *world) signalClass(g *simos.Group, since time.Duration) string {
	group, member, kill9 := false, false, false
	for _, r := range h.os.Signals {
		if r.At < since || r.Sig == 0 {
			continue
		}
		if r.Target == -g.Pgid {
			group = true
			if r.Sig == syscall.SIGKILL {
				kill9 = true
			}
			continue
		}
		for _, p := range g.Procs {
			if r.Target == p.Pid {
				member = true
			}
		}
	}
	switch {
	case group && kill9:
		return "group-kill9"
	case group:
		return "group-no-kill9"
	case member:
		return "member-only"
	}
	return "none"
}

func (h *world) signalsFor(g *simos.Group) string {
	var s []string
	for _, r := range h.os.Signals {
		if r.Target == -g.Pgid {
			s = append(s, fmt.Sprintf("%d->group@%v", int(r.Sig), r.At))
			continue
		}
		for _, p := range g.Procs {
			if r.Target == p.Pid {
				s = append(s, fmt.Sprintf("%d->%s@%v", int(r.Sig), p.Spec.Name, r.At))
			}
		}
	}
	if len(s) == 0 {
		return "none"
	}
	return strings.Join(s, " ")
}

func (h *world) fingerprint() string {
	var b strings.Builder
	for _, t := range h.tasks {
		b.WriteString(t.spec.Kind[:1])
		for _, u := range t.updates {
			fmt.Fprintf(&b, "%d.", int(u.state))
		}
		for _, x := range t.btt {
			fmt.Fprintf(&b, "b%d", int(x.final))
		}
		fmt.Fprintf(&b, "g%d|", len(t.groups))
	}
	return b.String()
}

// H is the harness.
var H = &hk.Harness{
	Name: "hexec", Property: "C17", Body: body, OnPanic: onPanic,
	MaxSteps: 400000, MaxSim: 2 * time.Hour, IdleLimit: 30 * time.Minute,
}

func TestSim(t *testing.T) { hk.Main(t, H) }
