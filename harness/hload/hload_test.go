package hload

import (
	"errors"
	"fmt"
	"io"
	"sort"
	"strings"
	"testing"
	"time"

	"github.com/AliceO2Group/Control/apricot"
	"github.com/AliceO2Group/Control/apricot/local"
	"github.com/AliceO2Group/Control/common/event"
	"github.com/AliceO2Group/Control/common/gera"
	"github.com/AliceO2Group/Control/common/utils/uid"
	"github.com/AliceO2Group/Control/configuration/cfgbackend"
	"github.com/AliceO2Group/Control/core/integration"
	"github.com/AliceO2Group/Control/core/repos"
	"github.com/AliceO2Group/Control/core/task/channel"
	"github.com/AliceO2Group/Control/core/workflow"
	"github.com/sirupsen/logrus"
	"github.com/spf13/viper"

	"simrt"
	"verif/hk"
	"verif/peers/simconsul"
)

// H-load: the real workflow template processing (aggregator / iterator / task / call roles,
// configuration/template, gera) of a generated template, loaded once sequentially and then under
// the other settings of the three concurrency switches with seeded schedules of the template
// goroutines; the processed trees are compared with each other and with an independent
// reference expansion.

type fakeRepo struct{}

func (fakeRepo) GetIdentifier() string                      { return "simrepo" }
func (fakeRepo) GetCloneDir() string                        { return "/nonexistent/simrepo" }
func (fakeRepo) ResolveTaskClassIdentifier(s string) string { return "simrepo/tasks/" + s + "@rev" }
func (fakeRepo) ResolveSubworkflowTemplateIdentifier(s string) string {
	return "simrepo/workflows/" + s
}
func (fakeRepo) GetProtocol() string                  { return "local" }
func (fakeRepo) GetHash() string                      { return "rev" }
func (fakeRepo) GetRevisions() []string               { return []string{"rev"} }
func (fakeRepo) GetDefaultRevision() string           { return "rev" }
func (fakeRepo) IsDefault() bool                      { return true }
func (fakeRepo) GetTaskTemplatePath(s string) string  { return s }
func (fakeRepo) GetDplCommand(string) (string, error) { return "", errors.New("no dpl") }

var _ repos.IRepo = fakeRepo{}

type node struct {
	Kind    string `json:"kind"` // agg, task, call
	Name    string `json:"name"`
	Enabled string `json:"enabled,omitempty"`  // "", "false", "flag:<f>", "it:<var>" (false for element x1)
	List    string `json:"for_list,omitempty"` // iterated over this list variable
	Var     string `json:"for_var,omitempty"`
	HasVar  bool   `json:"has_var,omitempty"` // defines a var referring to the root default `base`
	Broken  bool   `json:"broken,omitempty"`
	// BrokenRef: the error is a reference to a variable that is not visible to this role, written
	// with the very text another role (DefinesLv) uses validly
	BrokenRef bool `json:"broken_undefined_reference,omitempty"`
	DefinesLv bool `json:"defines_lv,omitempty"`
	UsesLv    bool `json:"uses_lv,omitempty"` // valid use: an ancestor defines it
	// ListDep: the range of this (nested) iterator depends on an outer iteration variable:
	// la when that variable is x0, lb otherwise
	ListDep string `json:"range_depends_on,omitempty"`
	// BrokenFor: a run-time template error (index out of range) for the element x1 of this
	// iteration variable only
	BrokenFor string `json:"broken_for_x1_of,omitempty"`
	// BindAlias: the role declares an inbound channel ch_<name> whose global alias is "al-{{ <this
	// iteration variable> }}"; roles below inherit it
	BindAlias string  `json:"bind_alias_of,omitempty"`
	Kids      []*node `json:"kids,omitempty"`
}

type scenario struct {
	Flags    map[string]string   `json:"flags"`
	Lists    map[string][]string `json:"lists"`
	Tree     []*node             `json:"tree"`
	Expected []string            `json:"expected_paths"`
	WantErr  bool                `json:"template_error_reached"`
	Settings []string            `json:"settings_loaded"`
	Template string              `json:"template_yaml"`
}

type gen struct {
	c         *hk.Ctx
	n         int
	sc        *scenario
	canBreak  bool
	brokenRef bool
}

func (g *gen) mk(depth int, iterVars []string) *node {
	c := g.c
	g.n++
	kind := "task"
	if depth < 3 {
		kind = []string{"agg", "agg", "task", "task", "call"}[c.W(5, "kind")]
	} else if c.W(4, "leaf-call") == 3 {
		kind = "call"
	}
	nd := &node{Kind: kind, Name: fmt.Sprintf("r%d", g.n)}
	if kind != "call" && c.W(3, "iterate") == 2 {
		nd.List, nd.Var = []string{"la", "lb"}[c.W(2, "list")], fmt.Sprintf("it%d", g.n)
		if len(iterVars) > 0 && c.W(3, "dependent-range") == 2 {
			nd.ListDep = iterVars[c.W(len(iterVars), "depends-on")]
		}
		iterVars = append(append([]string(nil), iterVars...), nd.Var)
	}
	switch c.W(7, "enabled") {
	case 4:
		nd.Enabled = "flag:" + []string{"fa", "fb"}[c.W(2, "flag")]
	case 5:
		nd.Enabled = "false"
	case 6:
		// an expression over an iteration variable; on the iterated role itself only rarely (known finding)
		if len(iterVars) > 0 && (nd.List == "" || c.W(15, "enabled-on-iterated-role") == 14) {
			nd.Enabled = []string{"it:", "it2:"}[c.W(2, "one-or-two-elements")] + iterVars[c.W(len(iterVars), "enabled-var")]
		}
	}
	if nd.List != "" && strings.HasPrefix(nd.Enabled, "flag:") && c.W(15, "flag-on-iterated-role") != 14 {
		nd.Enabled = "" // a templated enabled on the iterated role itself only rarely (known finding)
	}
	nd.HasVar = kind != "call" && c.W(3, "vars") == 2
	if kind != "call" && len(iterVars) > 0 && c.W(3, "bind-with-alias") == 2 {
		nd.BindAlias = iterVars[c.W(len(iterVars), "alias-var")]
	}
	if kind != "call" && g.canBreak && c.F(20, "break-here") == 19 {
		nd.Broken, g.canBreak = true, false
		switch how := c.F(3, "broken-how"); {
		case how == 1:
			nd.BrokenRef = true
			g.brokenRef = true
		case how == 2 && len(iterVars) > 0:
			nd.BrokenFor = iterVars[c.W(len(iterVars), "broken-for-var")]
		}
	}
	if kind == "agg" {
		k := 1 + c.W(3, "fanout")
		for i := 0; i < k; i++ {
			nd.Kids = append(nd.Kids, g.mk(depth+1, iterVars))
		}
	}
	return nd
}

func yamlNode(b *strings.Builder, nd *node, ind string) {
	name := nd.Name
	if nd.List != "" {
		name += "-{{ " + nd.Var + " }}"
	}
	fmt.Fprintf(b, "%s- name: \"%s\"\n", ind, name)
	in := ind + "  "
	if nd.List != "" && nd.ListDep != "" {
		fmt.Fprintf(b, "%sfor:\n%s  range: \"{{ %s == 'x0' ? la : lb }}\"\n%s  var: %s\n", in, in, nd.ListDep, in, nd.Var)
	} else if nd.List != "" {
		fmt.Fprintf(b, "%sfor:\n%s  range: \"{{ %s }}\"\n%s  var: %s\n", in, in, nd.List, in, nd.Var)
	}
	switch {
	case nd.Enabled == "false":
		fmt.Fprintf(b, "%senabled: \"false\"\n", in)
	case strings.HasPrefix(nd.Enabled, "flag:"):
		fmt.Fprintf(b, "%senabled: \"{{ %s }}\"\n", in, strings.TrimPrefix(nd.Enabled, "flag:"))
	case strings.HasPrefix(nd.Enabled, "it:"):
		fmt.Fprintf(b, "%senabled: \"{{ %s != 'x1' }}\"\n", in, strings.TrimPrefix(nd.Enabled, "it:"))
	case strings.HasPrefix(nd.Enabled, "it2:"):
		v := strings.TrimPrefix(nd.Enabled, "it2:")
		fmt.Fprintf(b, "%senabled: \"{{ %s != 'x1' && %s != 'x2' }}\"\n", in, v, v)
	}
	if nd.HasVar || nd.Broken || nd.DefinesLv || nd.UsesLv {
		fmt.Fprintf(b, "%svars:\n", in)
		if nd.HasVar {
			fmt.Fprintf(b, "%s  v_%s: \"p-{{ base }}\"\n", in, nd.Name)
		}
		if nd.DefinesLv {
			fmt.Fprintf(b, "%s  lv: \"a\"\n", in)
		}
		if nd.UsesLv {
			fmt.Fprintf(b, "%s  u: \"q-{{ lv }}\"\n", in)
		}
		if nd.Broken && nd.BrokenFor != "" {
			fmt.Fprintf(b, "%s  e: \"{{ FromJson(lc)[ %s == 'x1' ? 99 : 0 ] }}\"\n", in, nd.BrokenFor) // fails at run time for x1 only
		} else if nd.Broken && nd.BrokenRef {
			fmt.Fprintf(b, "%s  u: \"q-{{ lv }}\"\n", in) // lv is not defined for this role
		} else if nd.Broken {
			fmt.Fprintf(b, "%s  broken: \"{{ 1 + }}\"\n", in)
		}
	}
	if nd.BindAlias != "" {
		fmt.Fprintf(b, "%sbind:\n%s  - name: ch_%s\n%s    type: pull\n%s    global: \"al-{{ %s }}\"\n", in, in, nd.Name, in, in, nd.BindAlias)
	}
	switch nd.Kind {
	case "task":
		fmt.Fprintf(b, "%stask:\n%s  load: cls-%s\n", in, in, nd.Name)
	case "call":
		fmt.Fprintf(b, "%scall:\n%s  func: sp.Noop()\n%s  trigger: before_CONFIGURE\n%s  timeout: 1s\n", in, in, in, in)
	case "agg":
		fmt.Fprintf(b, "%sroles:\n", in)
		for _, k := range nd.Kids {
			yamlNode(b, k, in+"  ")
		}
	}
}

// reference expansion, written from the property statement
type refResult struct {
	paths      []string // DFS order
	errReached bool
	chans      map[string]string // path -> inbound channels (own and inherited) with their aliases
}

func renderChans(m map[string]string) string {
	var ks []string
	for k := range m {
		ks = append(ks, k)
	}
	sort.Strings(ks)
	r := ""
	for _, k := range ks {
		r += k + "=" + m[k] + ";"
	}
	return r
}

func (sc *scenario) expand(nd *node, prefix string, bind map[string]string, out *refResult) bool {
	return sc.expandC(nd, prefix, bind, map[string]string{}, out)
}

func (sc *scenario) expandC(nd *node, prefix string, bind, chans map[string]string, out *refResult) bool {
	elems := []string{""}
	if nd.List != "" {
		elems = sc.Lists[nd.List]
		if nd.ListDep != "" {
			elems = sc.Lists["lb"]
			if bind[nd.ListDep] == "x0" {
				elems = sc.Lists["la"]
			}
		}
	}
	any := false
	for _, e := range elems {
		b := bind
		name := nd.Name
		if nd.List != "" {
			b = map[string]string{}
			for k, v := range bind {
				b[k] = v
			}
			b[nd.Var] = e
			name += "-" + e
		}
		enabled := true
		switch {
		case nd.Enabled == "false":
			enabled = false
		case strings.HasPrefix(nd.Enabled, "flag:"):
			enabled = sc.Flags[strings.TrimPrefix(nd.Enabled, "flag:")] == "true"
		case strings.HasPrefix(nd.Enabled, "it:"):
			enabled = b[strings.TrimPrefix(nd.Enabled, "it:")] != "x1"
		case strings.HasPrefix(nd.Enabled, "it2:"):
			v := b[strings.TrimPrefix(nd.Enabled, "it2:")]
			enabled = v != "x1" && v != "x2"
		}
		if !enabled {
			continue
		}
		if nd.Broken && (nd.BrokenFor == "" || b[nd.BrokenFor] == "x1") {
			out.errReached = true
		}
		path := prefix + "." + name
		ch := chans
		if nd.BindAlias != "" {
			ch = map[string]string{}
			for k, v := range chans {
				ch[k] = v
			}
			ch["ch_"+nd.Name] = "al-" + b[nd.BindAlias]
		}
		if out.chans == nil {
			out.chans = map[string]string{}
		}
		out.chans[path] = renderChans(ch)
		if nd.Kind != "agg" {
			out.paths = append(out.paths, path)
			any = true
			continue
		}
		mark := len(out.paths)
		out.paths = append(out.paths, path)
		kept := false
		for _, k := range nd.Kids {
			if sc.expandC(k, path, b, ch, out) {
				kept = true
			}
		}
		if !kept {
			out.paths = out.paths[:mark] // an aggregator left empty disappears
		} else {
			any = true
		}
	}
	return any
}

func (sc *scenario) enabledExprOnIteratedRole() bool {
	var walk func(n *node) bool
	walk = func(n *node) bool {
		if n.List != "" && (strings.HasPrefix(n.Enabled, "it") || strings.HasPrefix(n.Enabled, "flag:")) {
			return true
		}
		for _, k := range n.Kids {
			if walk(k) {
				return true
			}
		}
		return false
	}
	for _, n := range sc.Tree {
		if walk(n) {
			return true
		}
	}
	return false
}

type loaded struct {
	err   string
	paths []string
	vars  map[string]string // path -> rendering of the consolidated variables that matter
	chans map[string]string // path -> inbound channels with their aliases
	yaml  string
}

func dump(r workflow.Role, out *loaded) {
	for _, k := range r.GetRoles() {
		out.paths = append(out.paths, k.GetPath())
		if vs, err := k.ConsolidatedVarStack(); err == nil {
			var ks []string
			for key := range vs {
				if strings.HasPrefix(key, "v_") || strings.HasPrefix(key, "it") || key == "base" {
					ks = append(ks, key)
				}
			}
			sort.Strings(ks)
			s := ""
			for _, key := range ks {
				s += key + "=" + vs[key] + ";"
			}
			out.vars[k.GetPath()] = s + fmt.Sprintf("enabled=%v hooks=%d", k.IsEnabled(), len(k.GetAllHooks()))
		}
		cm := map[string]string{}
		if ci, ok := k.(interface{ CollectInboundChannels() []channel.Inbound }); ok {
			for _, ch := range ci.CollectInboundChannels() {
				cm[ch.Name] = ch.Global
			}
		}
		out.chans[k.GetPath()] = renderChans(cm)
		dump(k, out)
	}
}

func load(c *hk.Ctx, yamlDoc string, a, b, d bool) *loaded {
	viper.Set("concurrentWorkflowTemplateProcessing", a)
	viper.Set("concurrentWorkflowTemplateIteratorProcessing", b)
	viper.Set("concurrentIteratorRoleExpansion", d)
	envId := uid.ID("2rE9AV3m1HL") // a fixed id: the process-wide generator keeps state across runs
	pa := workflow.NewParentAdapter(
		func() uid.ID { return envId }, func() uint32 { return 0 },
		func() gera.Map[string, string] { return gera.MakeMap[string, string]() },
		func() gera.Map[string, string] { return gera.MakeMap[string, string]() },
		func() gera.Map[string, string] { return gera.MakeMap[string, string]() },
		func(event.Event) {})
	out := &loaded{vars: map[string]string{}, chans: map[string]string{}}
	root, err := workflow.UnmarshalRoleForVerif([]byte(yamlDoc), pa)
	if err != nil {
		out.err = "unmarshal: " + err.Error()
		return out
	}
	loader := workflow.SubworkflowLoaderForVerif(func(string) ([]byte, repos.IRepo, error) { return nil, nil, errors.New("no subworkflows") })
	if err := root.ProcessTemplates(fakeRepo{}, loader, map[string]string{}); err != nil {
		out.err = err.Error()
		return out
	}
	dump(root, out)
	// (workflow.RoleToYAML is not used for the dump: it panics on iterators over task roles)
	return out
}

func body(c *hk.Ctx) {
	logrus.SetOutput(io.Discard)
	logrus.SetLevel(logrus.PanicLevel)
	viper.Reset()
	viper.Set("integrationPlugins", []string{})
	integration.Reset()
	store := simconsul.NewStore()
	src, err := cfgbackend.NewConsulSourceForVerif("sim-consul:8500", store.HTTPClient("core"))
	if err != nil {
		panic(err)
	}
	apricot.SetInstanceForVerif(local.NewServiceWithSourceForVerif(src))

	sc := &scenario{Flags: map[string]string{"fa": []string{"true", "false"}[c.W(2, "fa")], "fb": []string{"true", "false"}[c.W(2, "fb")]}, Lists: map[string][]string{}}
	c.Scenario = sc
	sc.Lists["la"] = [][]string{{"x0", "x1", "x2"}, {"x1"}, {"x0", "x1", "x2", "x3", "x4"}}[c.W(3, "la")]
	sc.Lists["lb"] = [][]string{{"x2", "x0"}, {}, {"x1", "x1b"}}[c.W(3, "lb")]
	g := &gen{c: c, sc: sc, canBreak: c.F(3, "inject-error") == 2}
	nTop := 1 + c.W(3, "top")
	for i := 0; i < nTop; i++ {
		sc.Tree = append(sc.Tree, g.mk(1, nil))
	}
	if g.brokenRef {
		// the role that uses the same expression text validly comes first
		sc.Tree = append([]*node{{Kind: "agg", Name: "r0def", DefinesLv: true, Kids: []*node{{Kind: "task", Name: "r0use", UsesLv: true}}}}, sc.Tree...)
	}
	jsonList := func(l []string) string {
		if len(l) == 0 {
			return "[]"
		}
		return `["` + strings.Join(l, `","`) + `"]`
	}
	var b strings.Builder
	fmt.Fprintf(&b, "name: wfl\ndefaults:\n  fa: \"%s\"\n  fb: \"%s\"\n  base: \"b0\"\n  la: '%s'\n  lb: '%s'\n  lc: '[\"c0\"]'\nroles:\n", sc.Flags["fa"], sc.Flags["fb"], jsonList(sc.Lists["la"]), jsonList(sc.Lists["lb"]))
	for _, nd := range sc.Tree {
		yamlNode(&b, nd, "  ")
	}
	ref := &refResult{}
	for _, nd := range sc.Tree {
		sc.expand(nd, "wfl", map[string]string{}, ref)
	}
	sc.Expected, sc.WantErr = ref.paths, ref.errReached
	if sc.WantErr {
		c.Count("fault.template_error_reached")
	}
	yamlDoc := b.String()
	sc.Template = yamlDoc

	// sequential load first, then the other settings of the three switches
	seq := load(c, yamlDoc, false, false, false)
	sc.Settings = append(sc.Settings, "000")
	c.NonTrivial = len(ref.paths) > 1
	c.State(fmt.Sprintf("paths=%d err=%v", len(ref.paths), ref.errReached))
	settings := [][3]bool{{true, true, true}, {true, false, false}, {false, true, false}, {false, false, true}, {true, true, false}, {true, false, true}, {false, true, true}}
	// reference expansion vs sequential load
	check := func(l *loaded, name string) bool {
		if ref.errReached {
			if l.err == "" {
				c.Violate("template-error-fails-load", "error-swallowed:"+name, "a template error is reached in an enabled role but the load (switches %s) succeeded with %d roles", name, len(l.paths))
				return false
			}
			return true
		}
		if l.err != "" {
			c.Violate("load-succeeds", "unexpected-error:"+name, "load (switches %s) failed: %s", name, l.err)
			return false
		}
		if strings.Join(l.paths, " ") != strings.Join(ref.paths, " ") {
			sig := "tree-differs-from-reference:" + name
			if sc.enabledExprOnIteratedRole() {
				sig = "enabled-expression-on-iterated-role"
			} else if len(l.paths) > len(ref.paths) && subsetOf(ref.paths, l.paths) && sc.extrasHoldIterators(ref.paths, l.paths) {
				sig = "aggregator-holding-only-an-empty-iterator-kept"
			}
			c.Violate("pruning-and-expansion", sig, "loaded tree (switches %s) has roles\n%v\nthe reference expansion (disabled roles and emptied aggregators absent, one child per range element in order) gives\n%v", name, l.paths, ref.paths)
			return false
		}
		for _, p := range ref.paths {
			if l.chans[p] != ref.chans[p] {
				c.Violate("channels", "inbound-alias-differs:"+name, "role %s (switches %s) has the inbound channels %q, the template gives %q (global alias with the iteration variable bound)", p, name, l.chans[p], ref.chans[p])
				return false
			}
		}
		return true
	}
	if !check(seq, "000") {
		return
	}
	nLoads := 1 + c.W(4, "concurrent-loads")
	for i := 0; i < nLoads; i++ {
		st := settings[c.W(len(settings), "setting")]
		name := fmt.Sprintf("%d%d%d", b2i(st[0]), b2i(st[1]), b2i(st[2]))
		sc.Settings = append(sc.Settings, name)
		l := load(c, yamlDoc, st[0], st[1], st[2])
		if !check(l, name) {
			return
		}
		if ref.errReached {
			continue
		}
		for _, p := range seq.paths {
			if l.vars[p] != seq.vars[p] {
				c.Violate("deterministic", "variables-differ:"+name, "role %s: variables/traits after a load with switches %s are %q, after the sequential load %q", p, name, l.vars[p], seq.vars[p])
				return
			}
		}
		if l.yaml != seq.yaml {
			c.Violate("deterministic", "dump-differs:"+name, "the processed tree dumped after a load with switches %s differs from the sequential one", name)
			return
		}
	}
	_ = time.Second
	_ = simrt.Yield
}

// extrasHoldIterators: every role present in the loaded tree but not in the reference is an
// aggregator that has (in the template) an iterated child, or lies below such an aggregator.
func (sc *scenario) extrasHoldIterators(ref, got []string) bool {
	in := map[string]bool{}
	for _, p := range ref {
		in[p] = true
	}
	byName := map[string]*node{}
	var index func(n *node)
	index = func(n *node) {
		byName[n.Name] = n
		for _, k := range n.Kids {
			index(k)
		}
	}
	for _, n := range sc.Tree {
		index(n)
	}
	for _, p := range got {
		if in[p] {
			continue
		}
		last := p[strings.LastIndex(p, ".")+1:]
		if i := strings.Index(last, "-"); i > 0 {
			last = last[:i]
		}
		n := byName[last]
		if n == nil {
			return false
		}
		var hasIter func(x *node) bool
		hasIter = func(x *node) bool {
			for _, k := range x.Kids {
				if k.List != "" || hasIter(k) {
					return true
				}
			}
			return false
		}
		if !hasIter(n) {
			return false
		}
	}
	return true
}

func subsetOf(a, b []string) bool {
	in := map[string]bool{}
	for _, x := range b {
		in[x] = true
	}
	for _, x := range a {
		if !in[x] {
			return false
		}
	}
	return true
}

func b2i(b bool) int {
	if b {
		return 1
	}
	return 0
}

var H = &hk.Harness{
	Name: "hload", Property: "C15", Body: body,
	MaxSteps: 2000000, MaxSim: time.Hour, WarpTo2026: true,
	Post: func(c *hk.Ctx, res simrt.Result) {
		if res.Reason != simrt.StopRequested && !c.Violated() {
			c.Violate("liveness", "hang:"+res.Reason, "template processing never returned (%s); blocked: %v", res.Reason, res.Blocked)
		}
	},
}

func TestSim(t *testing.T) { hk.Main(t, H) }
