package hload
