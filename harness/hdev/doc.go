package hdev
