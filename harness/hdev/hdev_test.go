package hdev

import (
	"context"
	"errors"
	"fmt"
	"io"
	"testing"
	"time"

	"github.com/AliceO2Group/Control/common/controlmode"
	"github.com/AliceO2Group/Control/executor/executorcmd"
	pb "github.com/AliceO2Group/Control/executor/protos"
	"github.com/sirupsen/logrus"
	"google.golang.org/grpc"

	"simrt"
	"verif/hk"
)

// H-dev: the real transitioners (FairMQ, Direct) and the real RpcClient.doTransition against a
// simulated device. The device follows the FairMQ state machine (or the O2 one for directly
// controlled tasks); each step it is asked to do gets an injected outcome. The decision tree
// (transition x real device state x outcome per step) is finite and is enumerated completely.

// FairMQ device state machine, from the FairMQ documentation (stable states only; the
// transient BINDING/CONNECTING/... states are traversed inside one request).
var fmqNext = map[string]map[string]string{
	"IDLE":                {"INIT DEVICE": "INITIALIZING DEVICE", "END": "EXITING"},
	"INITIALIZING DEVICE": {"COMPLETE INIT": "INITIALIZED"},
	"INITIALIZED":         {"BIND": "BOUND", "RESET DEVICE": "IDLE"},
	"BOUND":               {"CONNECT": "DEVICE READY", "RESET DEVICE": "IDLE"},
	"DEVICE READY":        {"INIT TASK": "READY", "RESET DEVICE": "IDLE"},
	"READY":               {"RUN": "RUNNING", "RESET TASK": "DEVICE READY"},
	"RUNNING":             {"STOP": "READY"},
	"ERROR":               {},
	"EXITING":             {},
}

// O2 state machine of a directly controlled task.
var directNext = map[string]map[string]string{
	"STANDBY":    {"CONFIGURE": "CONFIGURED", "EXIT": "DONE"},
	"CONFIGURED": {"START": "RUNNING", "RESET": "STANDBY", "EXIT": "DONE"},
	"RUNNING":    {"STOP": "CONFIGURED"},
	"ERROR":      {},
	"DONE":       {},
}

// image of a device state in O2 terms ("" = no image)
var fmqImage = map[string]string{"IDLE": "STANDBY", "READY": "CONFIGURED", "RUNNING": "RUNNING", "ERROR": "ERROR", "EXITING": "DONE"}

type outcome int

const (
	oDone         outcome = iota // performs the step, truthful reply
	oRefused                     // ok=false, state unchanged
	oError                       // the step fails and the device ends in ERROR, ok=false
	oLostBefore                  // transport error, request never reached the device
	oLostAfter                   // the device performed the step, the reply is lost (transport error)
	oWrongEvent                  // performs the step, reply echoes another event
	oNotExecutor                 // performs the step, reply says the device did it on its own
	nOutcomes
)

var oNames = [...]string{"done", "refused", "error-state", "lost-before", "lost-after", "wrong-event", "not-executor"}

type step struct {
	Event   string `json:"event"`
	From    string `json:"from"`
	Outcome string `json:"outcome"`
	To      string `json:"to"`
}

type device struct {
	c     *hk.Ctx
	next  map[string]map[string]string
	state string
	steps []step
	// rollback bookkeeping for the oracle
	rollbackAccepted bool
}

func (d *device) Transition(ctx context.Context, in *pb.TransitionRequest, opts ...grpc.CallOption) (*pb.TransitionReply, error) {
	simrt.Yield()
	ev := in.GetTransitionEvent()
	to, valid := d.next[d.state][ev]
	st := step{Event: ev, From: d.state}
	defer func() { st.To = d.state; d.steps = append(d.steps, st) }()
	if !valid {
		// a device refuses an event that is not valid in its state
		st.Outcome = "invalid-refused"
		return &pb.TransitionReply{Trigger: pb.StateChangeTrigger_EXECUTOR, State: d.state, TransitionEvent: ev, Ok: false}, nil
	}
	o := outcome(d.c.F(int(nOutcomes), "outcome:"+ev))
	st.Outcome = oNames[o]
	d.c.Count("fault.step." + oNames[o])
	switch o {
	case oDone:
		d.state = to
		return &pb.TransitionReply{Trigger: pb.StateChangeTrigger_EXECUTOR, State: d.state, TransitionEvent: ev, Ok: true}, nil
	case oRefused:
		return &pb.TransitionReply{Trigger: pb.StateChangeTrigger_EXECUTOR, State: d.state, TransitionEvent: ev, Ok: false}, nil
	case oError:
		d.state = "ERROR"
		return &pb.TransitionReply{Trigger: pb.StateChangeTrigger_DEVICE_ERROR, State: "ERROR", TransitionEvent: ev, Ok: false}, nil
	case oLostBefore:
		return nil, errors.New("rpc error: code = Unavailable desc = transport is closing")
	case oLostAfter:
		d.state = to
		return nil, errors.New("rpc error: code = DeadlineExceeded desc = context deadline exceeded")
	case oWrongEvent:
		d.state = to
		return &pb.TransitionReply{Trigger: pb.StateChangeTrigger_EXECUTOR, State: d.state, TransitionEvent: "Auto", Ok: true}, nil
	default:
		d.state = to
		return &pb.TransitionReply{Trigger: pb.StateChangeTrigger_DEVICE_INTENTIONAL, State: d.state, TransitionEvent: ev, Ok: true}, nil
	}
}

func (d *device) EventStream(context.Context, *pb.EventStreamRequest, ...grpc.CallOption) (pb.Occ_EventStreamClient, error) {
	return nil, errors.New("not simulated")
}
func (d *device) StateStream(context.Context, *pb.StateStreamRequest, ...grpc.CallOption) (pb.Occ_StateStreamClient, error) {
	return nil, errors.New("not simulated")
}
func (d *device) GetState(context.Context, *pb.GetStateRequest, ...grpc.CallOption) (*pb.GetStateReply, error) {
	return &pb.GetStateReply{State: d.state}, nil
}

type transition struct{ evt, src, dst string }

var transitions = []transition{
	{"CONFIGURE", "STANDBY", "CONFIGURED"},
	{"START", "CONFIGURED", "RUNNING"},
	{"STOP", "RUNNING", "CONFIGURED"},
	{"RESET", "CONFIGURED", "STANDBY"},
	{"EXIT", "STANDBY", "DONE"},
	{"EXIT", "CONFIGURED", "DONE"},
}

type scenario struct {
	Mode     string `json:"mode"`
	Event    string `json:"event"`
	Src      string `json:"src"`
	Dst      string `json:"dst"`
	DevStart string `json:"device_state_at_request"`
	Steps    []step `json:"device_steps"`
	Reported string `json:"reported_state"`
	Err      string `json:"error"`
	DevFinal string `json:"device_state_after"`
}

func body(c *hk.Ctx) {
	tr := transitions[c.W(len(transitions), "transition")]
	fmq := c.W(2, "mode") == 0
	sc := &scenario{Event: tr.evt, Src: tr.src, Dst: tr.dst, Mode: "direct"}
	c.Scenario = sc
	d := &device{c: c, next: directNext}
	o2ToDev := func(s string) string { return s }
	image := func(s string) string { return s }
	mode := controlmode.DIRECT
	startStates := []string{"STANDBY", "CONFIGURED", "RUNNING", "ERROR"}
	if fmq {
		sc.Mode = "fairmq"
		d.next = fmqNext
		mode = controlmode.FAIRMQ
		o2ToDev = func(s string) string {
			for k, v := range fmqImage {
				if v == s {
					return k
				}
			}
			return ""
		}
		image = func(s string) string { return fmqImage[s] }
		startStates = []string{"IDLE", "READY", "RUNNING", "ERROR"}
	}
	// the device is in the state the executor believes (first choice), or in another stable state
	k := c.W(len(startStates), "device-state")
	d.state = o2ToDev(tr.src)
	if k > 0 {
		alt := startStates[k-1]
		if alt == d.state {
			alt = startStates[len(startStates)-1]
		}
		d.state = alt
	}
	sc.DevStart = d.state
	log := logrus.New()
	log.SetOutput(io.Discard)
	cl := executorcmd.NewClientForVerif(d, mode, logrus.NewEntry(log))
	final, err := cl.Transitioner.Commit(tr.evt, tr.src, tr.dst, map[string]string{"k": "v"})
	sc.Steps = d.steps
	sc.Reported = final
	sc.DevFinal = d.state
	if err != nil {
		sc.Err = err.Error()
	}
	c.NonTrivial = len(d.steps) > 0
	c.State(fmt.Sprintf("%s %s dev=%s->%s reported=%q err=%v", sc.Mode, tr.evt, sc.DevStart, d.state, final, err != nil))

	// ---- oracles ----
	sig := fmt.Sprintf("%s:%s:%s", sc.Mode, tr.evt, sc.DevStart)
	// 1. the reported state is the image of the real device state (or nothing is claimed)
	if final != "" && final != image(d.state) {
		c.Violate("reported-state", sig+":reported="+final+",real="+d.state, "%s %s from %s: executor reports %q but the device is in %q (image %q); steps %+v", sc.Mode, tr.evt, sc.DevStart, final, d.state, image(d.state), d.steps)
	}
	// 2. success only if the device reached the destination
	if err == nil && d.state != o2ToDev(tr.dst) {
		c.Violate("success-iff-destination", sig+":real="+d.state, "%s %s from %s: no error returned but the device is in %q, not in the destination; steps %+v", sc.Mode, tr.evt, sc.DevStart, d.state, d.steps)
	}
	if err == nil && final != tr.dst {
		c.Violate("success-iff-destination", sig+":reported="+final, "%s %s: no error returned but reported state is %q", sc.Mode, tr.evt, final)
	}
	// 3. roll-back: a multi-step transition that got stuck half-way (a step refused in place, the
	// device truthfully reporting an intermediate state from which it accepts the rollback
	// event) must end in the source state when every rollback step was accepted
	if fmq && (tr.evt == "CONFIGURE" || tr.evt == "RESET" || tr.evt == "EXIT") && sc.DevStart == o2ToDev(tr.src) {
		stuck := false
		for i, s := range d.steps {
			if s.Outcome == "refused" && fmqImage[s.From] == "" && i > 0 {
				stuck = true
			}
		}
		allRollbacksOK := true
		for _, s := range d.steps {
			if s.Outcome != "done" && s.Outcome != "refused" && s.Outcome != "invalid-refused" {
				allRollbacksOK = false // something else went wrong too; no claim
			}
		}
		refusals := 0
		for _, s := range d.steps {
			if s.Outcome == "refused" {
				refusals++
			}
		}
		canRollback := false
		switch tr.evt {
		case "CONFIGURE":
			_, canRollback = fmqNext[firstRefusedFrom(d.steps)]["RESET DEVICE"]
		case "RESET", "EXIT":
			_, canRollback = fmqNext[firstRefusedFrom(d.steps)]["INIT TASK"]
		}
		if stuck && allRollbacksOK && refusals == 1 && canRollback && d.state != o2ToDev(tr.src) {
			c.Violate("rollback", sig+":stuck-in="+d.state, "%s %s: a step was refused in %q, the device accepts the rollback, yet it was left in %q instead of the source state; steps %+v", sc.Mode, tr.evt, firstRefusedFrom(d.steps), d.state, d.steps)
		}
	}
}

func firstRefusedFrom(steps []step) string {
	for _, s := range steps {
		if s.Outcome == "refused" {
			return s.From
		}
	}
	return ""
}

var H = &hk.Harness{
	Name: "hdev", Property: "C16", Body: body, Enumerable: true,
	MaxSteps: 10000, MaxSim: time.Hour,
	Post: func(c *hk.Ctx, res simrt.Result) {
		if res.Reason != simrt.StopRequested && !c.Violated() {
			c.Violate("liveness", "hang:"+res.Reason, "transition request never returned (%s)", res.Reason)
		}
	},
}

func TestSim(t *testing.T) { hk.Main(t, H) }
