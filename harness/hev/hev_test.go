package hev

import (
	"fmt"
	"testing"
	"time"

	"github.com/AliceO2Group/Control/common/event"
	pb "github.com/AliceO2Group/Control/common/protos"
	"github.com/segmentio/kafka-go"
	"google.golang.org/protobuf/proto"

	"simrt"
	"simrt/simsync"
	"verif/hk"
)

// H-ev: the real KafkaWriter + FifoBuffer (instrumented) against a simulated broker.
//
// Workload: 1..6 producers publishing bursts of events about 1..3 environments (environment,
// role, run, call and task events), a broker whose every write has a drawn latency (possibly a
// long stall), Close issued after the producers finished (immediately or after a drawn pause).

type produced struct {
	prod, seq int
	key       string
}

type scenario struct {
	Producers   int     `json:"producers"`
	Events      []int   `json:"events_per_producer"`
	BrokerLatMs []int   `json:"broker_latency_ms_per_write"`
	ClosePause  int     `json:"close_pause_ms"`
	Batches     []int   `json:"batch_sizes"`
	Accepted    int     `json:"accepted"`
	Delivered   int     `json:"delivered"`
	CloseSimS   float64 `json:"close_sim_s"`
	Backlog     int     `json:"backlog_at_close"`
}

func body(c *hk.Ctx) {
	nProd := 1 + c.W(6, "producers")
	big := c.W(8, "big-backlog") == 7 // a few runs build a backlog of thousands
	huge := c.W(40, "huge-burst") == 39 // rare: more events than the intake queue holds, no pauses
	if huge {
		nProd = 2 + c.W(3, "producers-huge")
		c.Count("probe.huge_burst_run")
	}
	sc := &scenario{Producers: nProd}
	c.Scenario = sc

	var mu simsync.Mutex
	var delivered []produced
	var batches []int
	writes := 0
	inWrite := false
	write := func(msgs []kafka.Message) {
		// simulated broker: latency drawn per write; value 0 = instantaneous
		mu.Lock()
		if inWrite {
			c.Violate("single-writer", "overlapping-writes", "two batches handed to the broker concurrently")
		}
		inWrite = true
		writes++
		mu.Unlock()
		lat := 0
		switch c.F(6, "broker-latency") {
		case 0, 1:
		case 2:
			lat = 1 + c.F(20, "lat-ms")
		case 3:
			lat = 50 + c.F(500, "lat-ms")
		case 4:
			lat = 2000 + c.F(10000, "lat-ms") // stall
			c.Count("fault.broker_stall")
		case 5:
			lat = 1
		}
		if lat > 0 {
			c.Count("fault.broker_latency")
			simrt.Sleep(time.Duration(lat) * time.Millisecond)
		}
		sc.BrokerLatMs = append(sc.BrokerLatMs, lat)
		mu.Lock()
		batches = append(batches, len(msgs))
		for _, m := range msgs {
			var ev pb.Event
			if err := proto.Unmarshal(m.Value, &ev); err != nil {
				c.Violate("payload", "unmarshal", "broker got undecodable message: %v", err)
				continue
			}
			p, s := decode(&ev)
			delivered = append(delivered, produced{prod: p, seq: s, key: string(m.Key)})
		}
		inWrite = false
		mu.Unlock()
		c.Logf("broker write n=%d t=%v", len(msgs), c.S.Now())
	}

	w := event.NewWriterForVerif("topic", write)
	if huge && c.W(2, "starve-batching-loop") == 1 {
		c.S.Starve(c.S.LastSpawnedID()) // the batching loop is the second goroutine the writer starts
		c.Count("probe.batching_loop_starved")
	}

	var wg simsync.WaitGroup
	accepted := make([][]produced, nProd)
	for p := 0; p < nProd; p++ {
		n := 1 + c.W(30, "events")
		if big {
			n = 300 + c.W(700, "events-big")
		}
		if huge {
			n = 10500/nProd + c.W(500, "events-huge")
		}
		sc.Events = append(sc.Events, n)
		bursts := 1 + c.W(3, "bursts")
		pauseMs := c.W(50, "pause-ms")
		wg.Add(1)
		p := p
		c.S.Go(fmt.Sprintf("producer%d", p), func() {
			defer wg.Done()
			for i := 0; i < n; i++ {
				ev, key := makeEvent(p, i)
				t0 := c.S.Now()
				w.WriteEvent(ev)
				if d := c.S.Now() - t0; d > 0 {
					c.Violate("producer-waits", "write-event-blocked", "WriteEvent of producer %d took %v of simulated time (producers must never wait for the broker)", p, d)
				}
				accepted[p] = append(accepted[p], produced{prod: p, seq: i, key: key})
				if bursts > 1 && (i+1)%(n/bursts+1) == 0 && pauseMs > 0 {
					simrt.Sleep(time.Duration(pauseMs) * time.Millisecond)
				}
			}
		})
	}
	wg.Wait()
	if k := c.W(4, "close-pause"); k > 0 {
		sc.ClosePause = []int{0, 1, 30, 3000}[k]
		simrt.Sleep(time.Duration(sc.ClosePause) * time.Millisecond)
	}
	mu.Lock()
	nAcc := 0
	for _, a := range accepted {
		nAcc += len(a)
	}
	sc.Backlog = nAcc - len(delivered)
	mu.Unlock()
	if sc.Backlog > 0 {
		c.Count("probe.close_with_backlog")
	}
	if sc.Backlog > 100 {
		c.Count("probe.close_with_backlog_gt_100")
	}
	t0 := c.S.Now()
	c.Logf("close start backlog=%d", sc.Backlog)
	w.Close()
	sc.CloseSimS = (c.S.Now() - t0).Seconds()
	c.Logf("close done after %v", c.S.Now()-t0)

	// ---- oracles (after Close returned) ----
	mu.Lock()
	defer mu.Unlock()
	sc.Batches = batches
	sc.Accepted = nAcc
	sc.Delivered = len(delivered)
	c.NonTrivial = nAcc > 1
	c.State(fmt.Sprintf("prod=%d backlog=%s batches=%s", nProd, bucket(sc.Backlog), bucket(len(batches))))
	// exactly once + flushed on shutdown
	seen := map[[2]int]int{}
	for _, d := range delivered {
		seen[[2]int{d.prod, d.seq}]++
	}
	lost, dup := 0, 0
	for _, a := range accepted {
		for _, e := range a {
			switch n := seen[[2]int{e.prod, e.seq}]; {
			case n == 0:
				lost++
			case n > 1:
				dup++
			}
		}
	}
	if dup > 0 {
		c.Violate("exactly-once", "duplicate", "%d events were handed to the broker more than once", dup)
	}
	if len(delivered) > nAcc+dup {
		c.Violate("exactly-once", "invented", "broker got %d events, only %d were published", len(delivered), nAcc)
	}
	if lost > 0 {
		c.Violate("flush-on-close", "lost-at-close", "%d of %d accepted events were never handed to the broker although Close returned (backlog at Close %d)", lost, nAcc, sc.Backlog)
	}
	// per-producer order
	last := map[int]int{}
	for _, d := range delivered {
		if l, ok := last[d.prod]; ok && d.seq <= l {
			c.Violate("order", "per-producer-order", "producer %d: event %d reached the broker after event %d", d.prod, d.seq, l)
			break
		}
		last[d.prod] = d.seq
	}
	// partition key
	for _, d := range delivered {
		_, key := makeEvent(d.prod, d.seq)
		if d.key != key {
			c.Violate("key", "partition-key", "event p%d#%d carries key %q, expected %q", d.prod, d.seq, d.key, key)
			break
		}
	}
	// bounded batches
	for _, b := range batches {
		if b > 1000 {
			c.Violate("batch-bound", "batch-too-large", "a batch of %d messages was handed to the broker", b)
			break
		}
		if b == 0 {
			c.Violate("batch-bound", "empty-batch", "an empty batch was handed to the broker")
			break
		}
	}
	// Close is bounded once the broker answers: every write takes at most 12.1 s here
	if lim := time.Duration(len(batches)+1)*13*time.Second + time.Second; c.S.Now()-t0 > lim {
		c.Violate("close-bounded", "close-slow", "Close took %v of simulated time", c.S.Now()-t0)
	}
}

func bucket(n int) string {
	switch {
	case n == 0:
		return "0"
	case n <= 10:
		return "1-10"
	case n <= 100:
		return "11-100"
	case n <= 1000:
		return "101-1000"
	}
	return ">1000"
}

// makeEvent: the event a producer publishes as its i-th, and the partition key it must carry.
func makeEvent(p, i int) (any, string) {
	env := fmt.Sprintf("env%d", p%3)
	tag := fmt.Sprintf("%d/%d", p, i)
	switch (p + i) % 5 {
	case 0:
		return &pb.Ev_EnvironmentEvent{EnvironmentId: env, Message: tag}, env
	case 1:
		return &pb.Ev_RoleEvent{EnvironmentId: env, Name: tag}, env
	case 2:
		return &pb.Ev_RunEvent{EnvironmentId: env, Error: tag}, env
	case 3:
		return &pb.Ev_CallEvent{EnvironmentId: env, Error: tag}, env
	default:
		tid := fmt.Sprintf("task-%d", p)
		return &pb.Ev_TaskEvent{Taskid: tid, Name: tag}, tid
	}
}

func decode(ev *pb.Event) (int, int) {
	tag := ""
	switch {
	case ev.GetEnvironmentEvent() != nil:
		tag = ev.GetEnvironmentEvent().Message
	case ev.GetRoleEvent() != nil:
		tag = ev.GetRoleEvent().Name
	case ev.GetRunEvent() != nil:
		tag = ev.GetRunEvent().Error
	case ev.GetCallEvent() != nil:
		tag = ev.GetCallEvent().Error
	case ev.GetTaskEvent() != nil:
		tag = ev.GetTaskEvent().Name
	}
	var p, s int
	fmt.Sscanf(tag, "%d/%d", &p, &s)
	return p, s
}

var H = &hk.Harness{
	Name:     "hev",
	Property: "C19",
	Body:     body,
	MaxSteps: 400000,
	MaxSim:   6 * time.Hour,
	Post: func(c *hk.Ctx, res simrt.Result) {
		if res.Reason != simrt.StopRequested && !c.Violated() {
			c.Violate("liveness", "hang:"+res.Reason, "run ended with %s after %v: producers or Close never finished; blocked: %v", res.Reason, res.SimTime, res.Blocked)
		}
	},
}

func TestSim(t *testing.T) { hk.Main(t, H) }
