package hev
