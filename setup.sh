#!/bin/bash
# Build the framework from files on disk only (offline) and warm the Go build cache.
set -euo pipefail
V="$(cd "$(dirname "$0")" && pwd)"
export PATH=/opt/veriftools/go1.26.8/bin:$PATH GOFLAGS=-mod=mod GOPROXY=off GOSUMDB=off GOTOOLCHAIN=local
cd "$V"
mkdir -p bin evidence replays
( cd tools/simrewrite && go build -o "$V/bin/simrewrite" . )
go build -o bin/vcheck ./cmd/vcheck
( cd simrt && go vet ./... && go test -count=1 ./... )
# warm the cache: instrument a scratch copy and compile every harness once
S="$(mktemp -d /var/tmp/verif.setup.XXXXXX)"
trap 'rm -rf "$S"' EXIT
./lib/prepare.sh "$S" >/dev/null
for h in harness/*/; do
  n="$(basename "$h")"
  go test -c -tags verif -trimpath -modfile "$S/go.mod" -o "$S/$n.test" "./harness/$n"
done
echo "setup ok"
