// Package hk is the harness kit shared by all simulation harnesses: one run = one synctest
// bubble driven by simrt from one decision tape; batches, shrinking, replay files and the JSON
// protocol spoken with cmd/vcheck.
package hk

import (
	"crypto/sha256"
	"encoding/binary"
	"encoding/json"
	"fmt"
	"hash/fnv"
	"os"
	"runtime"
	"runtime/debug"
	"sort"
	"strconv"
	"strings"
	"testing"
	"testing/synctest"
	"time"

	"simrt"
)

// Violation of a property found by an oracle.
type Violation struct {
	Property string `json:"property"`
	Oracle   string `json:"oracle"`
	// Sig identifies the specific failing shape (input, call site, history class); used to match
	// known findings. Must be stable under shrinking.
	Sig string `json:"sig"`
	Msg string `json:"msg"`
}

func (v *Violation) Class() string { return v.Property + "/" + v.Oracle + "/" + v.Sig }

// Ctx is handed to a harness body.
type Ctx struct {
	S        *simrt.Sim
	Property string
	log      []string
	logHash  [32]byte
	Stats    map[string]int
	// Scenario is a JSON-able description of what this run did (becomes an evidence sample).
	Scenario any
	// NonTrivial is set by the body when the property's oracle was really exercised.
	NonTrivial bool
	// AbstractStates collects harness-defined abstract state fingerprints.
	States map[string]struct{}
	viol   *Violation
	Trace  bool
}

// Logf appends to the canonical event log of the run (always hashed, kept only when tracing).
func (c *Ctx) Logf(format string, a ...any) {
	line := fmt.Sprintf(format, a...)
	h := sha256.New()
	h.Write(c.logHash[:])
	h.Write([]byte(line))
	copy(c.logHash[:], h.Sum(nil))
	if c.Trace {
		c.log = append(c.log, line)
	}
}

// Debugf adds a line to the trace only (never hashed): diagnostics that exist only when tracing.
func (c *Ctx) Debugf(format string, a ...any) {
	if c.Trace {
		c.log = append(c.log, fmt.Sprintf(format, a...))
	}
}

func (c *Ctx) Count(name string) { c.Stats[name]++ }

func (c *Ctx) State(fp string) { c.States[fp] = struct{}{} }

// Violate records a violation of the run. The run reports one: the first whose class is not a
// listed known finding (SIM_KNOWN) -- so that a listed finding does not hide a different
// violation of the same run -- or, when replaying, the one the replay file names; otherwise the
// first.
func (c *Ctx) Violate(oracle, sig, format string, a ...any) {
	v := &Violation{Property: c.Property, Oracle: oracle, Sig: sig, Msg: fmt.Sprintf(format, a...)}
	if c.viol == nil {
		c.viol = v
		return
	}
	if rank(v) < rank(c.viol) {
		c.viol = v
	}
}

var (
	preferClass  string // replay: the class the file names
	knownClasses = func() map[string]bool {
		m := map[string]bool{}
		for _, k := range strings.Split(os.Getenv("SIM_KNOWN"), ",") {
			if k != "" {
				m[k] = true
			}
		}
		return m
	}()
)

func rank(v *Violation) int {
	switch {
	case preferClass != "" && v.Class() == preferClass:
		return 0
	case !knownClasses[v.Oracle+"/"+v.Sig]:
		return 1
	}
	return 2
}

func (c *Ctx) Violated() bool { return c.viol != nil }

// W draws a workload decision in [0,n); F a fault decision (0 = benign).
func (c *Ctx) W(n int, label string) int { return c.S.Choose(simrt.Workload, n, label) }
func (c *Ctx) F(n int, label string) int { return c.S.Choose(simrt.Faults, n, label) }

// Harness is one simulated system + workload + oracle.
type Harness struct {
	Name     string
	Property string
	// Body runs as the first instrumented goroutine inside the simulation. When it returns the
	// run stops.
	Body func(c *Ctx)
	// Post runs after the simulation ended (outside the bubble) and may add a violation.
	Post func(c *Ctx, res simrt.Result)
	// Sim limits
	MaxSteps  int
	MaxSim    time.Duration
	IdleLimit time.Duration
	// Enumerable: the decision tree of Body is finite and small; SIM_MODE=enumerate walks it
	// completely (depth-first over the recorded decisions). Implies a fixed scheduling strategy.
	Enumerable bool
	// OneRunPerProcess: the system under test touches process-wide singletons; a violation is
	// neither shrunk nor re-executed in this process (cmd/vcheck replays it in a fresh one).
	OneRunPerProcess bool
	// WarpTo2026 sleeps the fake clock to 2026 before starting (clock-derived ids).
	WarpTo2026 bool
	// OnPanic, if set, receives a panic that reached the top frame of an instrumented goroutine
	// (id, incarnation, value, stack) instead of the test process dying: the harness decides
	// what the crash of that simulated process means.
	OnPanic func(c *Ctx, id, inc int, p any, stack string)
	// StartStallDen: see simrt.Config.StartStallDen (0 = goroutines of the code under test are never held back at their start).
	StartStallDen int
}

// RunResult of one execution.
type RunResult struct {
	Seed       uint64           `json:"seed"`
	Violation  *Violation       `json:"violation,omitempty"`
	Reason     string           `json:"reason"`
	Steps      int              `json:"steps"`
	Contended  int              `json:"contended"`
	Interleave uint64           `json:"interleave"`
	SimSeconds float64          `json:"sim_seconds"`
	LogHash    string           `json:"log_hash"`
	Stats      map[string]int   `json:"stats,omitempty"`
	Scenario   any              `json:"scenario,omitempty"`
	NonTrivial bool             `json:"nontrivial"`
	States     []string         `json:"-"`
	Log        []string         `json:"log,omitempty"`
	Tape       []simrt.Decision `json:"-"`
	Diverged   string           `json:"diverged,omitempty"`
	Blocked    []string         `json:"blocked,omitempty"`
}

// Execute runs the harness once on the given tape.
func Execute(t *testing.T, h *Harness, tape *simrt.Tape, trace bool) (rr RunResult) {
	c := &Ctx{Property: h.Property, Stats: map[string]int{}, States: map[string]struct{}{}, Trace: trace}
	var res simrt.Result
	func() {
		defer func() {
			if p := recover(); p != nil {
				msg := fmt.Sprint(p)
				if strings.Contains(msg, "deadlock: main bubble goroutine has exited") {
					return
				}
				// a panic on the driver goroutine is harness trouble
				panic(fmt.Sprintf("hk: panic in bubble root: %v\n%s", p, debug.Stack()))
			}
		}()
		synctest.Test(t, func(t *testing.T) {
			if h.WarpTo2026 {
				time.Sleep(time.Date(2026, 1, 1, 0, 0, 0, 0, time.UTC).Sub(time.Now()))
			}
			cfg := simrt.Config{Tape: tape, MaxSteps: h.MaxSteps, MaxSim: h.MaxSim, IdleLimit: h.IdleLimit, FixedStrategy: h.Enumerable, StartStallDen: h.StartStallDen}
			if trace {
				cfg.Trace = func(s string) { c.log = append(c.log, s) }
			}
			if h.OnPanic != nil {
				cfg.OnPanic = func(id, inc int, p any, stack string) { h.OnPanic(c, id, inc, p, stack) }
			}
			s := simrt.New(cfg)
			c.S = s
			res = s.Run(func() {
				h.Body(c)
				s.Stop()
			})
		})
	}()
	if res.Err != nil && c.viol == nil {
		c.viol = &Violation{Property: h.Property, Oracle: "sim", Sig: firstWords(res.Err.Error(), 3), Msg: res.Err.Error()}
	}
	if h.Post != nil {
		h.Post(c, res)
	}
	for k, v := range c.S.Stats {
		c.Stats[k] += v
	}
	rr = RunResult{
		Seed: tape.Seed, Violation: c.viol, Reason: res.Reason, Steps: res.Steps, Contended: res.Contended,
		Interleave: res.Interleave, SimSeconds: res.SimTime.Seconds(), LogHash: fmt.Sprintf("%x", c.logHash[:8]),
		Stats: c.Stats, Scenario: c.Scenario, NonTrivial: c.NonTrivial, Tape: tape.Rec, Blocked: res.Blocked,
	}
	for k := range c.States {
		rr.States = append(rr.States, k)
	}
	sort.Strings(rr.States)
	if trace {
		rr.Log = c.log
	}
	if tape.Diverged != nil {
		rr.Diverged = tape.Diverged.Error()
	}
	return rr
}

func firstWords(s string, n int) string {
	f := strings.Fields(s)
	if len(f) > n {
		f = f[:n]
	}
	return strings.Join(f, "-")
}

// ---------------------------------------------------------------------------------------------
// replay files

type ReplayFile struct {
	Harness  string           `json:"harness"`
	Property string           `json:"property"`
	Seed     uint64           `json:"seed"`
	Class    string           `json:"class"`
	Msg      string           `json:"msg"`
	LogHash  string           `json:"log_hash"`
	Scenario any              `json:"scenario,omitempty"`
	Tape     []simrt.Decision `json:"tape"`
	Log      []string         `json:"log,omitempty"`
	SeedOnly bool             `json:"seed_only,omitempty"`
}

// ---------------------------------------------------------------------------------------------
// shrinking (tape minimisation, lenient replay)

// Shrink minimises a failing tape while the violation class persists. run executes a candidate
// (lenient replay) and returns the class found ("" if none) together with the tape it actually
// recorded.
func Shrink(rec []simrt.Decision, class string, budget time.Duration, run func([]simrt.Decision) (string, []simrt.Decision)) []simrt.Decision {
	deadline := time.Now().Add(budget)
	best := rec
	try := func(cand []simrt.Decision) bool {
		if time.Now().After(deadline) {
			return false
		}
		cl, actual := run(cand)
		if cl == class && len(actual) <= len(best) {
			best = actual
			return true
		}
		return false
	}
	// split by stream so that shrinking one stream leaves the others aligned
	improved := true
	for improved && time.Now().Before(deadline) {
		improved = false
		for _, st := range []simrt.Stream{simrt.Workload, simrt.Faults, simrt.Schedule} {
			// 1. zero the tail / chunks of this stream
			idx := streamIdx(best, st)
			for size := len(idx); size >= 1; size /= 2 {
				for start := 0; start+size <= len(idx); {
					idx = streamIdx(best, st)
					if start+size > len(idx) {
						break
					}
					cand := clone(best)
					changed := false
					for _, i := range idx[start : start+size] {
						if cand[i].K != 0 {
							cand[i].K = 0
							changed = true
						}
					}
					if changed && try(cand) {
						improved = true
						// keep start (tape may have changed shape)
					} else {
						start += size
					}
					if time.Now().After(deadline) {
						return best
					}
				}
			}
			// 2. lower individual values
			idx = streamIdx(best, st)
			for j := 0; j < len(idx); j++ {
				idx = streamIdx(best, st)
				if j >= len(idx) {
					break
				}
				i := idx[j]
				for best[i].K > 0 {
					cand := clone(best)
					cand[i].K = best[i].K / 2
					if !try(cand) {
						cand = clone(best)
						cand[i].K = best[i].K - 1
						if cand[i].K == best[i].K/2 || !try(cand) {
							break
						}
					}
					improved = true
					idx = streamIdx(best, st)
					if j >= len(idx) {
						break
					}
					i = idx[j]
				}
			}
		}
	}
	return best
}

func streamIdx(t []simrt.Decision, s simrt.Stream) []int {
	var out []int
	for i, d := range t {
		if d.S == s {
			out = append(out, i)
		}
	}
	return out
}

func clone(t []simrt.Decision) []simrt.Decision { return append([]simrt.Decision(nil), t...) }

// ---------------------------------------------------------------------------------------------
// batch protocol (worker side)

// BatchOut is what a worker writes for cmd/vcheck.
type BatchOut struct {
	Harness     string            `json:"harness"`
	Property    string            `json:"property"`
	Runs        int               `json:"runs"`
	NonTrivial  int               `json:"nontrivial"`
	Steps       int64             `json:"steps"`
	Contended   int64             `json:"contended"`
	SimSeconds  float64           `json:"sim_seconds"`
	WallSeconds float64           `json:"wall_seconds"`
	Stats       map[string]int    `json:"stats"`
	Reasons     map[string]int    `json:"reasons"`
	Distinct    []uint64          `json:"distinct"`    // hashes of (scenario, interleaving) of non-trivial runs
	Interleaves []uint64          `json:"interleaves"` // distinct interleaving hashes
	States      []string          `json:"states"`      // distinct abstract states
	Samples     []any             `json:"samples"`
	Violations  []ViolationReport `json:"violations"`
	Nondeterm   []string          `json:"nondeterminism,omitempty"`
	FirstSeed   uint64            `json:"first_seed"`
	LastSeed    uint64            `json:"last_seed"`
}

type ViolationReport struct {
	Seed        uint64     `json:"seed"`
	Violation   *Violation `json:"violation"`
	Replay      string     `json:"replay"`
	TapeLen     int        `json:"tape_len"`
	ShrunkLen   int        `json:"shrunk_len"`
	Reproduced  bool       `json:"reproduced"`
	Known       bool       `json:"known"`
	NeedsReplay bool       `json:"needs_replay,omitempty"`
}

func envInt(name string, def int64) int64 {
	if v := os.Getenv(name); v != "" {
		if n, err := strconv.ParseInt(v, 10, 64); err == nil {
			return n
		}
	}
	return def
}

func hash64(parts ...any) uint64 {
	h := fnv.New64a()
	for _, p := range parts {
		b, _ := json.Marshal(p)
		h.Write(b)
		h.Write([]byte{0})
	}
	return h.Sum64()
}

// Main is the entry point used by every harness test binary (from its TestSim). Environment:
//
//	SIM_MODE    batch (default) | replay | determinism
//	SIM_SEED0   first seed, SIM_COUNT number of seeds, SIM_STRIDE (default 1)
//	SIM_BUDGET_S wall-clock budget for the batch (truncates the seed list, never adds seeds)
//	SIM_OUT     result file (JSON BatchOut)
//	SIM_REPLAY  replay file (mode replay)
//	SIM_REPLAY_DIR where replay files of new violations are written
//	SIM_MAX_VIOL  stop after this many violations (default 1)
func Main(t *testing.T, h *Harness) {
	mode := os.Getenv("SIM_MODE")
	switch mode {
	case "replay":
		replayMain(t, h)
	case "determinism":
		determinismMain(t, h)
	case "enumerate":
		enumerateMain(t, h)
	case "detdump":
		// development aid: run every seed twice, traced, and dump both logs where they differ
		seed0 := uint64(envInt("SIM_SEED0", 1))
		for i := int64(0); i < envInt("SIM_COUNT", 50); i++ {
			seed := seed0 + uint64(i)
			a := Execute(t, h, simrt.NewTape(seed), true)
			b := Execute(t, h, simrt.NewTape(seed), true)
			if a.LogHash != b.LogHash {
				os.WriteFile(fmt.Sprintf("%s.%d.a", os.Getenv("SIM_OUT"), seed), []byte(strings.Join(a.Log, "\n")), 0o644)
				os.WriteFile(fmt.Sprintf("%s.%d.b", os.Getenv("SIM_OUT"), seed), []byte(strings.Join(b.Log, "\n")), 0o644)
			}
		}
	default:
		batchMain(t, h)
	}
}

func writeJSON(path string, v any) {
	b, err := json.MarshalIndent(v, "", " ")
	if err != nil {
		panic(err)
	}
	if path == "" {
		os.Stdout.Write(b)
		return
	}
	if err := os.WriteFile(path+".tmp", b, 0o644); err != nil {
		panic(err)
	}
	os.Rename(path+".tmp", path)
}

func batchMain(t *testing.T, h *Harness) {
	seed0 := uint64(envInt("SIM_SEED0", 1))
	count := envInt("SIM_COUNT", 100)
	stride := uint64(envInt("SIM_STRIDE", 1))
	budget := time.Duration(envInt("SIM_BUDGET_S", 3600)) * time.Second
	maxViol := int(envInt("SIM_MAX_VIOL", 1))
	out := BatchOut{Harness: h.Name, Property: h.Property, Stats: map[string]int{}, Reasons: map[string]int{}, FirstSeed: seed0}
	distinct := map[uint64]struct{}{}
	ilv := map[uint64]struct{}{}
	states := map[string]struct{}{}
	start := time.Now()
	progress := os.Getenv("SIM_OUT")
	known := map[string]bool{}
	knownSeen := map[string]bool{}
	for _, k := range strings.Split(os.Getenv("SIM_KNOWN"), ",") {
		if k != "" {
			known[k] = true
		}
	}
	fresh := 0
	for i := int64(0); i < count; i++ {
		if time.Since(start) > budget {
			break
		}
		seed := seed0 + uint64(i)*stride
		if progress != "" {
			os.WriteFile(progress+".cur", []byte(strconv.FormatUint(seed, 10)), 0o644)
		}
		tape := simrt.NewTape(seed)
		tape.KeepLabels = false
		rr := Execute(t, h, tape, false)
		out.Runs++
		out.LastSeed = seed
		out.Steps += int64(rr.Steps)
		out.Contended += int64(rr.Contended)
		out.SimSeconds += rr.SimSeconds
		out.Reasons[rr.Reason]++
		for k, v := range rr.Stats {
			out.Stats[k] += v
		}
		ilv[rr.Interleave] = struct{}{}
		for _, s := range rr.States {
			states[s] = struct{}{}
		}
		if rr.NonTrivial {
			out.NonTrivial++
			distinct[hash64(rr.Scenario, rr.Interleave)] = struct{}{}
		}
		if len(out.Samples) < 3 && rr.Scenario != nil && rr.NonTrivial {
			out.Samples = append(out.Samples, map[string]any{"seed": seed, "scenario": rr.Scenario, "steps": rr.Steps, "contended_decisions": rr.Contended, "sim_seconds": rr.SimSeconds})
		}
		if rr.Violation != nil {
			cl := rr.Violation.Oracle + "/" + rr.Violation.Sig
			if known[cl] {
				// a listed finding: report its first occurrence, keep exploring
				out.Stats["known_finding_runs"]++
				if !knownSeen[cl] {
					knownSeen[cl] = true
					out.Violations = append(out.Violations, ViolationReport{Seed: seed, Violation: rr.Violation, Known: true, Reproduced: true, TapeLen: len(rr.Tape)})
				}
				continue
			}
			vr := reportViolation(t, h, rr)
			out.Violations = append(out.Violations, vr)
			fresh++
			if fresh >= maxViol {
				break
			}
		}
	}
	out.WallSeconds = time.Since(start).Seconds()
	for k := range distinct {
		out.Distinct = append(out.Distinct, k)
	}
	for k := range ilv {
		out.Interleaves = append(out.Interleaves, k)
	}
	for k := range states {
		out.States = append(out.States, k)
	}
	sort.Strings(out.States)
	writeJSON(os.Getenv("SIM_OUT"), out)
}

// reportViolation shrinks, re-executes strictly, and writes the replay file.
func reportViolation(t *testing.T, h *Harness, rr RunResult) ViolationReport {
	class := rr.Violation.Class()
	vr := ViolationReport{Seed: rr.Seed, Violation: rr.Violation, TapeLen: len(rr.Tape)}
	if h.OneRunPerProcess {
		dir := os.Getenv("SIM_REPLAY_DIR")
		if dir == "" {
			dir = os.TempDir()
		}
		os.MkdirAll(dir, 0o755)
		rf := ReplayFile{Harness: h.Name, Property: h.Property, Seed: rr.Seed, Class: class, Msg: rr.Violation.Msg, LogHash: rr.LogHash, Scenario: rr.Scenario, Tape: rr.Tape}
		path := fmt.Sprintf("%s/%s-%s-%d.json", dir, h.Property, sanitize(rr.Violation.Oracle), rr.Seed)
		writeJSON(path, rf)
		vr.Replay, vr.ShrunkLen, vr.NeedsReplay = path, len(rr.Tape), true
		return vr
	}
	shrinkBudget := time.Duration(envInt("SIM_SHRINK_S", 60)) * time.Second
	best := Shrink(rr.Tape, class, shrinkBudget, func(cand []simrt.Decision) (string, []simrt.Decision) {
		r := Execute(t, h, simrt.ReplayTape(rr.Seed, cand, false), false)
		if r.Violation == nil {
			return "", r.Tape
		}
		return r.Violation.Class(), r.Tape
	})
	vr.ShrunkLen = len(best)
	// strict re-execution with trace, twice: must fail identically
	a := Execute(t, h, simrt.ReplayTape(rr.Seed, best, true), true)
	b := Execute(t, h, simrt.ReplayTape(rr.Seed, best, true), false)
	vr.Reproduced = a.Violation != nil && b.Violation != nil && a.Violation.Class() == class && b.Violation.Class() == class && a.LogHash == b.LogHash && a.Diverged == "" && b.Diverged == ""
	if a.Violation != nil {
		vr.Violation = a.Violation
	}
	dir := os.Getenv("SIM_REPLAY_DIR")
	if dir == "" {
		dir = os.TempDir()
	}
	os.MkdirAll(dir, 0o755)
	msg := ""
	if a.Violation != nil {
		msg = a.Violation.Msg
	}
	rf := ReplayFile{Harness: h.Name, Property: h.Property, Seed: rr.Seed, Class: class, Msg: msg, LogHash: a.LogHash, Scenario: a.Scenario, Tape: best, Log: tail(a.Log, 400)}
	path := fmt.Sprintf("%s/%s-%s-%d.json", dir, h.Property, sanitize(rr.Violation.Oracle), rr.Seed)
	writeJSON(path, rf)
	vr.Replay = path
	return vr
}

func tail(l []string, n int) []string {
	if len(l) > n {
		return l[len(l)-n:]
	}
	return l
}

func sanitize(s string) string {
	b := []byte(s)
	for i, c := range b {
		if !(c >= 'a' && c <= 'z' || c >= 'A' && c <= 'Z' || c >= '0' && c <= '9' || c == '-' || c == '_') {
			b[i] = '_'
		}
	}
	return string(b)
}

// replayMain: exit status is communicated through SIM_OUT: {"reproduced":bool,...}
func replayMain(t *testing.T, h *Harness) {
	path := os.Getenv("SIM_REPLAY")
	b, err := os.ReadFile(path)
	if err != nil {
		t.Fatalf("replay: %v", err)
	}
	var rf ReplayFile
	if err := json.Unmarshal(b, &rf); err != nil {
		t.Fatalf("replay: %v", err)
	}
	preferClass = rf.Class
	tape := simrt.ReplayTape(rf.Seed, rf.Tape, true)
	if rf.SeedOnly {
		tape = simrt.NewTape(rf.Seed)
	}
	rr := Execute(t, h, tape, true)
	res := map[string]any{"diverged": rr.Diverged, "log_hash": rr.LogHash, "expected_log_hash": rf.LogHash, "expected_class": rf.Class}
	if rr.Violation != nil {
		res["violation"] = rr.Violation
		res["class"] = rr.Violation.Class()
	}
	res["log_tail"] = tail(rr.Log, 60)
	if f := os.Getenv("SIM_FULL_LOG"); f != "" {
		os.WriteFile(f, []byte(strings.Join(rr.Log, "\n")), 0o644)
	}
	writeJSON(os.Getenv("SIM_OUT"), res)
}

// determinismMain runs every seed twice (once with tracing, which must not perturb anything)
// and reports seeds whose canonical log hash, tape or interleaving differ.
func determinismMain(t *testing.T, h *Harness) {
	seed0 := uint64(envInt("SIM_SEED0", 1))
	count := envInt("SIM_COUNT", 50)
	out := BatchOut{Harness: h.Name, Property: h.Property, Stats: map[string]int{}, Reasons: map[string]int{}, FirstSeed: seed0}
	var hashes []string
	for i := int64(0); i < count; i++ {
		seed := seed0 + uint64(i)
		a := Execute(t, h, simrt.NewTape(seed), false)
		b := Execute(t, h, simrt.NewTape(seed), true)
		out.Runs += 2
		ta, _ := json.Marshal(a.Tape)
		tb, _ := json.Marshal(b.Tape)
		if a.LogHash != b.LogHash || a.Interleave != b.Interleave || string(ta) != string(tb) {
			out.Nondeterm = append(out.Nondeterm, fmt.Sprintf("seed %d: log %s vs %s, interleave %x vs %x, tape %d vs %d", seed, a.LogHash, b.LogHash, a.Interleave, b.Interleave, len(a.Tape), len(b.Tape)))
		}
		var th [8]byte
		binary.LittleEndian.PutUint64(th[:], hash64(string(ta)))
		hashes = append(hashes, fmt.Sprintf("%d:%s:%x:%x", seed, a.LogHash, a.Interleave, th))
	}
	out.States = hashes // per-seed fingerprints, compared across processes by vcheck
	writeJSON(os.Getenv("SIM_OUT"), out)
}

// enumerateMain walks the complete decision tree of an Enumerable harness depth-first. The tree
// is split among SIM_EW workers by the value of the first decision (worker SIM_EI takes values
// congruent to it). Every leaf is one execution.
func enumerateMain(t *testing.T, h *Harness) {
	if !h.Enumerable {
		t.Fatalf("harness %s is not enumerable", h.Name)
	}
	workers := int(envInt("SIM_EW", 1))
	me := int(envInt("SIM_EI", 0))
	maxLeaves := envInt("SIM_COUNT", 50_000_000)
	budget := time.Duration(envInt("SIM_BUDGET_S", 3600)) * time.Second
	out := BatchOut{Harness: h.Name, Property: h.Property, Stats: map[string]int{}, Reasons: map[string]int{}}
	distinct := map[uint64]struct{}{}
	states := map[string]struct{}{}
	start := time.Now()
	cand := []simrt.Decision{{S: simrt.Workload, K: me}}
	complete := false
	known := map[string]bool{}
	knownSeen := map[string]bool{}
	for _, k := range strings.Split(os.Getenv("SIM_KNOWN"), ",") {
		if k != "" {
			known[k] = true
		}
	}
	for int64(out.Runs) < maxLeaves && time.Since(start) < budget {
		rr := Execute(t, h, simrt.ReplayTape(0, cand, false), false)
		rec := rr.Tape
		if len(rec) == 0 || rec[0].K%workers != me || me >= rec[0].N {
			complete = true // nothing in this worker's share
			break
		}
		out.Runs++
		out.Steps += int64(rr.Steps)
		out.SimSeconds += rr.SimSeconds
		out.Reasons[rr.Reason]++
		for k, v := range rr.Stats {
			out.Stats[k] += v
		}
		for _, s := range rr.States {
			states[s] = struct{}{}
		}
		if rr.NonTrivial {
			out.NonTrivial++
			distinct[hash64(rr.Scenario)] = struct{}{}
		}
		if len(out.Samples) < 3 && rr.Scenario != nil && rr.NonTrivial && out.Runs%97 == 1 {
			out.Samples = append(out.Samples, map[string]any{"leaf": out.Runs, "scenario": rr.Scenario})
		}
		if rr.Violation != nil {
			cl := rr.Violation.Oracle + "/" + rr.Violation.Sig
			if known[cl] {
				out.Stats["known_finding_runs"]++
				if !knownSeen[cl] {
					knownSeen[cl] = true
					out.Violations = append(out.Violations, ViolationReport{Violation: rr.Violation, Known: true, Reproduced: true, TapeLen: len(rr.Tape)})
				}
			} else {
				rr.Seed = 0
				vr := reportViolation(t, h, rr)
				out.Violations = append(out.Violations, vr)
				break
			}
		}
		// next leaf: increment the last decision that has a sibling left
		i := len(rec) - 1
		for ; i >= 0; i-- {
			step := 1
			if i == 0 {
				step = workers
			}
			if rec[i].K+step < rec[i].N {
				rec[i].K += step
				break
			}
		}
		if i < 0 {
			complete = true
			break
		}
		cand = append([]simrt.Decision(nil), rec[:i+1]...)
	}
	if complete {
		out.Stats["enumeration_complete"] = 1
	}
	out.WallSeconds = time.Since(start).Seconds()
	for k := range distinct {
		out.Distinct = append(out.Distinct, k)
	}
	for k := range states {
		out.States = append(out.States, k)
	}
	sort.Strings(out.States)
	writeJSON(os.Getenv("SIM_OUT"), out)
}

// BlockedSummary lists, for every goroutine of the process, the innermost frame whose function
// name contains one of the given substrings, with counts (diagnosis of hangs; call it from the
// body or from Post while the bubble's goroutines still exist).
func BlockedSummary(substr ...string) []string {
	buf := make([]byte, 8<<20)
	n := runtime.Stack(buf, true)
	counts := map[string]int{}
	for _, g := range strings.Split(string(buf[:n]), "\n\n") {
		lines := strings.Split(g, "\n")
		if len(lines) < 2 {
			continue
		}
		state := lines[0]
		if i := strings.Index(state, "["); i >= 0 {
			state = strings.TrimSuffix(state[i:], ":")
		}
		for i := 1; i+1 < len(lines); i += 2 {
			fn := lines[i]
			hit := false
			for _, sub := range substr {
				if strings.Contains(fn, sub) {
					hit = true
				}
			}
			if hit {
				loc := strings.TrimSpace(lines[i+1])
				if j := strings.LastIndex(loc, "/"); j >= 0 {
					loc = loc[j+1:]
				}
				if j := strings.Index(loc, " "); j >= 0 {
					loc = loc[:j]
				}
				if j := strings.Index(fn, "("); j > 0 && strings.HasSuffix(fn, ")") {
					fn = fn[:strings.LastIndex(fn, "(")]
				}
				if j := strings.LastIndex(fn, "/"); j >= 0 {
					fn = fn[j+1:]
				}
				counts[fn+"@"+loc+" "+state]++
				break
			}
		}
	}
	var out []string
	for k, v := range counts {
		out = append(out, fmt.Sprintf("%dx %s", v, k))
	}
	sort.Strings(out)
	return out
}
