// vcheck runs one property's simulation check against /repo's current working tree:
//
//	vcheck <property> [--tier quick|thorough] [--seed N] [--replay file] [--determinism]
//
// exit 0: the property held on everything explored (known findings are printed as
// KNOWN-FINDING lines); exit 1: "VIOLATION property=<id> replay=<path>"; exit 2: harness trouble
// (build failure, watchdog, replay divergence, nondeterminism) - never printed as a violation.
package main

import (
	"bufio"
	"encoding/json"
	"fmt"
	"os"
	"os/exec"
	"path/filepath"
	"sort"
	"strconv"
	"strings"
	"sync"
	"time"
)

type batchOut struct {
	Harness     string            `json:"harness"`
	Property    string            `json:"property"`
	Runs        int               `json:"runs"`
	NonTrivial  int               `json:"nontrivial"`
	Steps       int64             `json:"steps"`
	Contended   int64             `json:"contended"`
	SimSeconds  float64           `json:"sim_seconds"`
	WallSeconds float64           `json:"wall_seconds"`
	Stats       map[string]int    `json:"stats"`
	Reasons     map[string]int    `json:"reasons"`
	Distinct    []uint64          `json:"distinct"`
	Interleaves []uint64          `json:"interleaves"`
	States      []string          `json:"states"`
	Samples     []any             `json:"samples"`
	Violations  []violationReport `json:"violations"`
	Nondeterm   []string          `json:"nondeterminism"`
	FirstSeed   uint64            `json:"first_seed"`
	LastSeed    uint64            `json:"last_seed"`
}

type violation struct {
	Property string `json:"property"`
	Oracle   string `json:"oracle"`
	Sig      string `json:"sig"`
	Msg      string `json:"msg"`
}

type violationReport struct {
	Seed        uint64     `json:"seed"`
	Violation   *violation `json:"violation"`
	Replay      string     `json:"replay"`
	TapeLen     int        `json:"tape_len"`
	ShrunkLen   int        `json:"shrunk_len"`
	Reproduced  bool       `json:"reproduced"`
	Known       bool       `json:"known"`
	NeedsReplay bool       `json:"needs_replay"`
}

var verifDir = "/verif"

func die2(format string, a ...any) {
	fmt.Fprintf(os.Stderr, "vcheck: "+format+"\n", a...)
	os.Exit(2)
}

func main() {
	if d := os.Getenv("VERIF_DIR"); d != "" {
		verifDir = d
	} else if wd, err := os.Getwd(); err == nil {
		if _, err := os.Stat(filepath.Join(wd, "properties.jsonl")); err == nil {
			verifDir = wd
		}
	}
	args := os.Args[1:]
	if len(args) < 1 {
		die2("usage: vcheck <property> [--tier quick|thorough] [--seed N] [--replay file] [--determinism]")
	}
	id := args[0]
	tier := "quick"
	if t := os.Getenv("VERIF_TIER"); t != "" {
		tier = t
	}
	seed := int64(1)
	if s := os.Getenv("VERIF_SEED"); s != "" {
		if n, err := strconv.ParseInt(s, 10, 64); err == nil {
			seed = n
		}
	}
	replay := ""
	determinism := false
	keep := false
	for i := 1; i < len(args); i++ {
		switch args[i] {
		case "--tier":
			i++
			if os.Getenv("VERIF_TIER") == "" {
				tier = args[i]
			}
		case "--seed":
			i++
			if os.Getenv("VERIF_SEED") == "" {
				seed, _ = strconv.ParseInt(args[i], 10, 64)
			}
		case "--replay":
			i++
			replay = args[i]
		case "--determinism":
			determinism = true
		case "--keep":
			keep = true
		default:
			die2("unknown argument %q", args[i])
		}
	}
	p, ok := props[id]
	if !ok {
		die2("no check for property %s", id)
	}
	p.ID = id
	start := time.Now()

	scratch, err := os.MkdirTemp("/var/tmp", "verif."+id+".")
	if err != nil {
		die2("mktemp: %v", err)
	}
	cleanup := func() {
		if !keep {
			os.RemoveAll(scratch)
		}
	}
	defer cleanup()
	code := run(p, tier, seed, replay, determinism, scratch, start)
	cleanup()
	os.Exit(code)
}

func goEnv() []string {
	env := os.Environ()
	env = append(env, "GOFLAGS=-mod=mod", "GOPROXY=off", "GOSUMDB=off", "GOTOOLCHAIN=local",
		"PATH=/opt/veriftools/go1.26.8/bin:"+os.Getenv("PATH"))
	return env
}

func buildHarness(name, scratch string) (string, error) {
	bin := filepath.Join(scratch, name+".test")
	cmd := exec.Command("go", "test", "-c", "-tags", "verif", "-trimpath", "-modfile", filepath.Join(scratch, "go.mod"), "-o", bin, "./harness/"+name)
	cmd.Dir = verifDir
	cmd.Env = goEnv()
	out, err := cmd.CombinedOutput()
	if err != nil {
		return "", fmt.Errorf("building harness %s failed: %v\n%s", name, err, out)
	}
	return bin, nil
}

func build(p *propCfg, scratch string) (string, error) {
	cmd := exec.Command(filepath.Join(verifDir, "lib/prepare.sh"), scratch)
	cmd.Env = goEnv()
	out, err := cmd.CombinedOutput()
	if err != nil {
		return "", fmt.Errorf("prepare failed: %v\n%s", err, out)
	}
	bin := filepath.Join(scratch, p.Harness+".test")
	cmd = exec.Command("go", "test", "-c", "-tags", "verif", "-trimpath", "-modfile", filepath.Join(scratch, "go.mod"), "-o", bin, "./harness/"+p.Harness)
	cmd.Dir = verifDir
	cmd.Env = goEnv()
	out, err = cmd.CombinedOutput()
	if err != nil {
		return "", fmt.Errorf("building harness %s failed: %v\n%s", p.Harness, err, out)
	}
	return bin, nil
}

type known struct {
	class string // oracle/sig
	text  string
}

func loadKnown(id string) []known {
	f, err := os.Open(filepath.Join(verifDir, "known_findings.txt"))
	if err != nil {
		return nil
	}
	defer f.Close()
	var out []known
	sc := bufio.NewScanner(f)
	for sc.Scan() {
		line := strings.TrimSpace(sc.Text())
		if !strings.HasPrefix(line, "known:") {
			continue
		}
		fields := strings.Fields(strings.TrimPrefix(line, "known:"))
		if len(fields) < 2 || fields[0] != "property="+id || !strings.HasPrefix(fields[1], "sig=") {
			continue
		}
		out = append(out, known{class: strings.TrimPrefix(fields[1], "sig="), text: strings.Join(fields[2:], " ")})
	}
	return out
}

func runWorker(bin string, env []string, timeout time.Duration) (string, error) {
	cmd := exec.Command(bin, "-test.run", "^TestSim$", "-test.timeout", "0")
	cmd.Env = append(os.Environ(), env...)
	// the instrumented sources the binary was built from (panic call sites are named by their statement)
	cmd.Env = append(cmd.Env, "SIM_SRC="+filepath.Join(filepath.Dir(bin), "repo"))
	var buf strings.Builder
	cmd.Stdout = &buf
	cmd.Stderr = &buf
	if err := cmd.Start(); err != nil {
		return "", err
	}
	done := make(chan error, 1)
	go func() { done <- cmd.Wait() }()
	select {
	case err := <-done:
		return buf.String(), err
	case <-time.After(timeout):
		cmd.Process.Kill()
		<-done
		return buf.String(), fmt.Errorf("watchdog: worker exceeded %v", timeout)
	}
}

func run(p *propCfg, tier string, seed int64, replay string, determinism bool, scratch string, start time.Time) int {
	if replay != "" {
		// the replay file says which harness produced it
		var rf struct {
			Harness string `json:"harness"`
		}
		if b, e := os.ReadFile(replay); e == nil && json.Unmarshal(b, &rf) == nil && rf.Harness != "" {
			cp := *p
			cp.Harness = rf.Harness
			p = &cp
		}
	}
	bin, err := build(p, scratch)
	if err != nil {
		fmt.Fprintln(os.Stderr, "vcheck:", err)
		return 2
	}
	extraBin := ""
	if p.Extra != "" && replay == "" {
		if extraBin, err = buildHarness(p.Extra, scratch); err != nil {
			fmt.Fprintln(os.Stderr, "vcheck:", err)
			return 2
		}
	}
	buildS := time.Since(start).Seconds()
	if replay != "" {
		return doReplay(p, bin, replay, scratch)
	}
	workers := 16
	if w := os.Getenv("VERIF_WORKERS"); w != "" {
		workers, _ = strconv.Atoi(w)
	}
	// determinism self-test (short in quick, longer in thorough or on request)
	detSeeds := p.DetSeedsQuick
	if tier == "thorough" || determinism {
		detSeeds = p.DetSeedsThorough
	}
	detMsg := ""
	if detSeeds > 0 {
		detMsg = determinismTest(p, bin, scratch, seed, detSeeds)
	}
	if determinism {
		if detMsg != "" {
			fmt.Fprintln(os.Stderr, "vcheck: determinism self-test failed:", detMsg)
			return 2
		}
		fmt.Printf("determinism self-test passed: %d seeds x 2 in-process runs x 3 processes (GOMAXPROCS 1/4/16)\n", detSeeds)
		return 0
	}
	runs, budget := p.QuickRuns, p.QuickBudgetS
	if tier == "thorough" {
		runs, budget = p.ThoroughRuns, p.ThoroughBudgetS
	}
	if b := os.Getenv("VERIF_BUDGET_S"); b != "" {
		budget, _ = strconv.Atoi(b)
	}
	if r := os.Getenv("VERIF_RUNS"); r != "" {
		runs, _ = strconv.Atoi(r)
	}
	kn := loadKnown(p.ID)
	var knownClasses []string
	for _, k := range kn {
		knownClasses = append(knownClasses, k.class)
	}
	replayDir := filepath.Join(verifDir, "replays", p.ID)
	os.MkdirAll(replayDir, 0o755)
	seed0 := uint64(seed) * 1_000_000
	if p.Enumerate {
		workers = p.EnumWorkers
	}
	perWorker := (runs + workers - 1) / workers
	var mu sync.Mutex
	var outs []batchOut
	var trouble []string
	var crashes []violationReport
	var wg sync.WaitGroup
	for w := 0; w < workers; w++ {
		wg.Add(1)
		go func(w int) {
			defer wg.Done()
			per := perWorker
			onePer := p.OnePerProcess || (extraBin != "" && w%4 == 3 && p.ExtraOnePerProcess)
			if onePer {
				per = 1
			} else if !p.Enumerate && per > 3000 {
				// a fresh process every few thousand runs: goroutines still blocked when a run ends
				// stay behind in their bubble, and a long batch would grow without bound
				per = 3000
			}
			deadline := start.Add(time.Duration(budget) * time.Second)
			for k := 0; k < perWorker; k += per {
				if time.Now().After(deadline) {
					return
				}
				outFile := filepath.Join(scratch, fmt.Sprintf("out.%d.%d.json", w, k))
				left := int(time.Until(deadline).Seconds())
				if left < 1 {
					left = 1
				}
				mode := "batch"
				if p.Enumerate {
					mode = "enumerate"
				}
				env := []string{
					"SIM_MODE=" + mode, "SIM_PROP=" + p.ID,
					fmt.Sprintf("SIM_EW=%d", workers), fmt.Sprintf("SIM_EI=%d", w),
					fmt.Sprintf("SIM_SEED0=%d", seed0+uint64(w)+uint64(k)*uint64(workers)),
					fmt.Sprintf("SIM_STRIDE=%d", workers),
					fmt.Sprintf("SIM_COUNT=%d", min(per, perWorker-k)),
					fmt.Sprintf("SIM_BUDGET_S=%d", left),
					"SIM_OUT=" + outFile, "SIM_REPLAY_DIR=" + replayDir,
					"SIM_KNOWN=" + strings.Join(knownClasses, ","),
					"SIM_TIER=" + tier,
				}
				wd := time.Duration(left+p.WatchdogSlackS) * time.Second
				if onePer {
					wd = time.Duration(max(p.WatchdogSlackS, 180)) * time.Second
				}
				wbin := bin
				if extraBin != "" && w%4 == 3 {
					wbin = extraBin // every fourth worker runs the second harness serving this property
				}
				log, err := runWorker(wbin, env, wd)
				b, rerr := os.ReadFile(outFile)
				if rerr != nil {
					// the worker died: a panic in the code under test or harness trouble
					cur, _ := os.ReadFile(outFile + ".cur")
					s, _ := strconv.ParseUint(strings.TrimSpace(string(cur)), 10, 64)
					mu.Lock()
					switch {
					case strings.Contains(log, "watchdog") || (err != nil && strings.Contains(err.Error(), "watchdog")):
						trouble = append(trouble, fmt.Sprintf("worker %d seed %d: %v", w, s, err))
					case !strings.Contains(log, "\npanic:") && !strings.Contains(log, "\nfatal error:") && !strings.HasPrefix(log, "panic:"):
						// killed from outside (memory?) or died without a Go panic: not a finding about the code
						trouble = append(trouble, fmt.Sprintf("worker %d died at seed %d without a panic: %v", w, s, err))
					default:
						cr := crashReport(p, s, log, replayDir)
						// a crash counts once it happens again from its seed alone in a fresh process
						again := filepath.Join(scratch, fmt.Sprintf("crash.%d.%d.json", w, s))
						mu.Unlock()
						_, _ = runWorker(wbin, []string{"SIM_MODE=batch", "SIM_PROP=" + p.ID, fmt.Sprintf("SIM_SEED0=%d", s), "SIM_COUNT=1", "SIM_STRIDE=1",
							"SIM_OUT=" + again, "SIM_REPLAY_DIR=" + replayDir, "SIM_KNOWN=" + strings.Join(knownClasses, ",")}, time.Duration(p.WatchdogSlackS)*time.Second)
						mu.Lock()
						if _, e := os.Stat(again); e == nil {
							trouble = append(trouble, fmt.Sprintf("worker %d crashed at seed %d (%s) but the seed alone does not crash a fresh process", w, s, cr.Violation.Msg))
						} else {
							crashes = append(crashes, cr)
						}
					}
					mu.Unlock()
					return
				}
				var o batchOut
				jerr := json.Unmarshal(b, &o)
				for i := range o.Violations {
					v := &o.Violations[i]
					if v.NeedsReplay && !v.Known {
						v.Reproduced = confirmReplay(p, wbin, v, scratch, w)
					}
				}
				if jerr != nil {
					mu.Lock()
					trouble = append(trouble, fmt.Sprintf("worker %d: bad output: %v", w, jerr))
					mu.Unlock()
					return
				}
				os.Remove(outFile)
				os.Remove(outFile + ".cur")
				mu.Lock()
				outs = append(outs, o)
				stop := false
				for _, v := range o.Violations {
					if !v.Known {
						stop = true
					}
				}
				mu.Unlock()
				if stop {
					return
				}
			}
		}(w)
	}
	wg.Wait()
	if detMsg != "" {
		// a violation that reproduces from its replay file stands on its own; otherwise
		// nondeterminism makes a clean batch worthless: harness trouble
		trouble = append(trouble, "determinism self-test failed: "+detMsg)
	}
	return report(p, tier, seed, outs, crashes, trouble, kn, start, buildS)
}

// confirmReplay re-executes a violation of a one-run-per-process harness from its replay file in
// a fresh process: same class and same canonical log hash, no tape divergence.
func confirmReplay(p *propCfg, bin string, v *violationReport, scratch string, w int) bool {
	outFile := filepath.Join(scratch, fmt.Sprintf("confirm.%d.%d.json", w, v.Seed))
	// the confirming run is one process replaying one tape; on a loaded machine it can take many times
	// what it takes on an idle one, and a replay cut short by the watchdog must not pass for "did not
	// reproduce": generous limit, and a second attempt when the first left no result
	limit := 4 * time.Duration(p.WatchdogSlackS) * time.Second
	if limit < 10*time.Minute {
		limit = 10 * time.Minute
	}
	var b []byte
	var err error
	for attempt := 0; attempt < 2; attempt++ {
		_, _ = runWorker(bin, []string{"SIM_MODE=replay", "SIM_PROP=" + p.ID, "SIM_REPLAY=" + v.Replay, "SIM_OUT=" + outFile}, limit)
		if b, err = os.ReadFile(outFile); err == nil {
			break
		}
	}
	if err != nil {
		return false
	}
	var res map[string]any
	if json.Unmarshal(b, &res) != nil {
		return false
	}
	want := v.Violation.Property + "/" + v.Violation.Oracle + "/" + v.Violation.Sig
	d, _ := res["diverged"].(string)
	return res["class"] == want && d == "" && res["log_hash"] == res["expected_log_hash"]
}

func crashReport(p *propCfg, seed uint64, log, replayDir string) violationReport {
	msg := "process crashed"
	sig := "crash"
	lines := strings.Split(log, "\n")
	for _, l := range lines {
		if strings.HasPrefix(l, "panic:") || strings.HasPrefix(l, "fatal error:") {
			msg = l
			sig = "crash:" + firstWords(strings.TrimPrefix(strings.TrimPrefix(l, "panic:"), "fatal error:"), 4)
			break
		}
	}
	if len(lines) > 80 {
		lines = lines[:80]
	}
	path := filepath.Join(replayDir, fmt.Sprintf("%s-crash-%d.json", p.ID, seed))
	rf := map[string]any{"harness": p.Harness, "property": p.ID, "seed": seed, "seed_only": true,
		"class": p.ID + "/crash/" + sig, "msg": msg, "log": lines, "tape": []any{}}
	b, _ := json.MarshalIndent(rf, "", " ")
	os.WriteFile(path, b, 0o644)
	return violationReport{Seed: seed, Violation: &violation{Property: p.ID, Oracle: "crash", Sig: sig, Msg: msg}, Replay: path, Reproduced: true}
}

func firstWords(s string, n int) string {
	f := strings.Fields(s)
	if len(f) > n {
		f = f[:n]
	}
	return strings.Join(f, "-")
}

func doReplay(p *propCfg, bin, replay, scratch string) int {
	abs, _ := filepath.Abs(replay)
	outFile := filepath.Join(scratch, "replay.json")
	log, err := runWorker(bin, []string{"SIM_MODE=replay", "SIM_PROP=" + p.ID, "SIM_REPLAY=" + abs, "SIM_OUT=" + outFile}, 10*time.Minute)
	b, rerr := os.ReadFile(outFile)
	if rerr != nil {
		// crashed: for a crash replay this is the reproduction
		var rf map[string]any
		if rb, e := os.ReadFile(abs); e == nil && json.Unmarshal(rb, &rf) == nil && rf["seed_only"] == true {
			fmt.Println(headLines(log, 40))
			fmt.Printf("VIOLATION property=%s replay=%s\n", p.ID, abs)
			return 1
		}
		fmt.Fprintf(os.Stderr, "vcheck: replay worker failed: %v\n%s\n", err, headLines(log, 60))
		return 2
	}
	var res map[string]any
	json.Unmarshal(b, &res)
	if d, _ := res["diverged"].(string); d != "" {
		fmt.Fprintf(os.Stderr, "vcheck: replay diverged (the code changed shape?): %s\n", d)
		return 2
	}
	if tl, ok := res["log_tail"].([]any); ok {
		for _, l := range tl {
			fmt.Println(l)
		}
	}
	if v, ok := res["violation"].(map[string]any); ok {
		fmt.Printf("replayed: %v/%v: %v\n", v["oracle"], v["sig"], v["msg"])
		fmt.Printf("VIOLATION property=%s replay=%s\n", p.ID, abs)
		return 1
	}
	fmt.Println("replay: no violation on the current tree")
	return 0
}

func headLines(s string, n int) string {
	l := strings.Split(s, "\n")
	if len(l) > n {
		l = l[:n]
	}
	return strings.Join(l, "\n")
}

func determinismTest(p *propCfg, bin, scratch string, seed int64, n int) string {
	type res struct {
		fp  []string
		err string
	}
	procs := []int{1, 4, 16}
	results := make([]res, len(procs))
	var wg sync.WaitGroup
	for i, gmp := range procs {
		wg.Add(1)
		go func(i, gmp int) {
			defer wg.Done()
			outFile := filepath.Join(scratch, fmt.Sprintf("det.%d.json", gmp))
			env := []string{"SIM_MODE=determinism", "SIM_PROP=" + p.ID, fmt.Sprintf("SIM_SEED0=%d", uint64(seed)*1_000_000+500_000),
				fmt.Sprintf("SIM_COUNT=%d", n), "SIM_OUT=" + outFile, fmt.Sprintf("GOMAXPROCS=%d", gmp)}
			log, err := runWorker(bin, env, 20*time.Minute)
			b, rerr := os.ReadFile(outFile)
			if rerr != nil {
				results[i].err = fmt.Sprintf("GOMAXPROCS=%d worker failed: %v\n%s", gmp, err, headLines(log, 30))
				return
			}
			var o batchOut
			json.Unmarshal(b, &o)
			if len(o.Nondeterm) > 0 {
				results[i].err = fmt.Sprintf("GOMAXPROCS=%d: %s", gmp, strings.Join(o.Nondeterm, "; "))
			}
			results[i].fp = o.States
			sort.Strings(results[i].fp)
		}(i, gmp)
	}
	wg.Wait()
	for _, r := range results {
		if r.err != "" {
			return r.err
		}
	}
	for i := 1; i < len(results); i++ {
		if strings.Join(results[i].fp, "|") != strings.Join(results[0].fp, "|") {
			for k := range results[0].fp {
				if k < len(results[i].fp) && results[0].fp[k] != results[i].fp[k] {
					return fmt.Sprintf("fingerprints differ between GOMAXPROCS=%d and %d: %s vs %s", procs[0], procs[i], results[0].fp[k], results[i].fp[k])
				}
			}
			return "fingerprint lists differ in length"
		}
	}
	return ""
}

func report(p *propCfg, tier string, seed int64, outs []batchOut, crashes []violationReport, trouble []string, kn []known, start time.Time, buildS float64) int {
	total := batchOut{Stats: map[string]int{}, Reasons: map[string]int{}}
	distinct := map[uint64]struct{}{}
	ilv := map[uint64]struct{}{}
	states := map[string]struct{}{}
	var viols []violationReport
	for _, o := range outs {
		total.Runs += o.Runs
		total.NonTrivial += o.NonTrivial
		total.Steps += o.Steps
		total.Contended += o.Contended
		total.SimSeconds += o.SimSeconds
		for k, v := range o.Stats {
			total.Stats[k] += v
		}
		for k, v := range o.Reasons {
			total.Reasons[k] += v
		}
		for _, d := range o.Distinct {
			distinct[d] = struct{}{}
		}
		for _, d := range o.Interleaves {
			ilv[d] = struct{}{}
		}
		for _, s := range o.States {
			states[s] = struct{}{}
		}
		if len(total.Samples) < 4 {
			total.Samples = append(total.Samples, o.Samples...)
		}
		viols = append(viols, o.Violations...)
	}
	viols = append(viols, crashes...)
	sort.Slice(viols, func(i, j int) bool { return viols[i].Seed < viols[j].Seed })
	wall := time.Since(start).Seconds()

	knownHit := map[string]bool{}
	var fresh []violationReport
	notRepro := 0
	for _, v := range viols {
		cl := v.Violation.Oracle + "/" + v.Violation.Sig
		isKnown := false
		for _, k := range kn {
			if k.class == cl {
				isKnown = true
				knownHit[k.class] = true
			}
		}
		if isKnown {
			continue
		}
		if !v.Reproduced {
			notRepro++
			trouble = append(trouble, fmt.Sprintf("seed %d: %s found but did not reproduce from its replay file (%s)", v.Seed, cl, v.Replay))
			continue
		}
		fresh = append(fresh, v)
	}

	faults := map[string]int{}
	probes := map[string]int{}
	other := map[string]int{}
	for k, v := range total.Stats {
		switch {
		case strings.HasPrefix(k, "fault."):
			faults[strings.TrimPrefix(k, "fault.")] = v
		case strings.HasPrefix(k, "probe."):
			probes[strings.TrimPrefix(k, "probe.")] = v
		default:
			other[k] = v
		}
	}
	if len(total.Samples) > 4 {
		total.Samples = total.Samples[:4]
	}
	if total.Samples == nil {
		total.Samples = []any{}
	}
	stl := make([]string, 0, len(states))
	for s := range states {
		stl = append(stl, s)
	}
	sort.Strings(stl)
	if len(stl) > 12 {
		stl = stl[:12]
	}
	cov := map[string]any{
		"evaluations":               total.Runs,
		"distinct_nontrivial":       len(distinct),
		"rule":                      p.Rule,
		"samples":                   total.Samples,
		"nontrivial_runs":           total.NonTrivial,
		"sim_seconds":               total.SimSeconds,
		"runs_per_hour":             float64(total.Runs) / (wall / 3600),
		"schedule_decisions":        total.Steps,
		"contended_decisions":       total.Contended,
		"distinct_interleavings":    len(ilv),
		"distinct_abstract_states":  len(states),
		"abstract_state_examples":   stl,
		"faults_fired":              faults,
		"probes":                    probes,
		"counters":                  other,
		"end_reasons":               total.Reasons,
		"real_components":           p.Real,
		"stubbed_components":        p.Stub,
		"build_s":                   buildS,
		"seeds":                     fmt.Sprintf("%d + i, i in [0,%d)", uint64(seed)*1_000_000, total.Runs),
		"known_findings_reproduced": len(knownHit),
	}
	if p.Enumerate {
		cov["exhaustive"] = total.Stats["enumeration_complete"] == p.EnumWorkers
		cov["enumeration_workers_complete"] = total.Stats["enumeration_complete"]
		if total.Stats["enumeration_complete"] != p.EnumWorkers && len(fresh) == 0 {
			trouble = append(trouble, fmt.Sprintf("enumeration incomplete: %d of %d shares finished", total.Stats["enumeration_complete"], p.EnumWorkers))
		}
	}
	ev := map[string]any{
		"property_id": p.ID, "tier": tier, "seed": seed, "level": p.Level,
		"coverage": cov, "assumptions": p.Assumptions, "wall_s": wall, "violations": len(fresh),
	}
	evDir := filepath.Join(verifDir, "evidence")
	if d := os.Getenv("VERIF_EVIDENCE_DIR"); d != "" {
		evDir = d // used when checking seeded mutants, so that committed evidence is not overwritten
	}
	os.MkdirAll(evDir, 0o755)
	b, _ := json.MarshalIndent(ev, "", " ")
	evPath := filepath.Join(evDir, p.ID+".json")
	os.WriteFile(evPath+".tmp", b, 0o644)
	os.Rename(evPath+".tmp", evPath)

	fmt.Printf("%s %s: %d runs (%d non-trivial, %d distinct), %d schedule decisions (%d contended), %d interleavings, %.0f simulated s, %.1f s wall (build %.1f s)\n",
		p.ID, tier, total.Runs, total.NonTrivial, len(distinct), total.Steps, total.Contended, len(ilv), total.SimSeconds, wall, buildS)
	for _, k := range kn {
		if knownHit[k.class] {
			fmt.Printf("KNOWN-FINDING: property=%s %s [%s]\n", p.ID, k.text, k.class)
		}
	}
	if len(fresh) > 0 {
		seen := map[string]bool{}
		for _, v := range fresh {
			cl := v.Violation.Oracle + "/" + v.Violation.Sig
			if seen[cl] {
				continue
			}
			seen[cl] = true
			fmt.Printf("violation seed=%d %s: %s (tape %d -> %d decisions)\n", v.Seed, cl, v.Violation.Msg, v.TapeLen, v.ShrunkLen)
			fmt.Printf("VIOLATION property=%s replay=%s\n", p.ID, v.Replay)
		}
		return 1
	}
	if len(trouble) > 0 {
		for _, t := range trouble {
			fmt.Fprintln(os.Stderr, "vcheck: trouble:", t)
		}
		return 2
	}
	if total.Runs == 0 {
		fmt.Fprintln(os.Stderr, "vcheck: no run completed")
		return 2
	}
	return 0
}
