package main

type propCfg struct {
	ID                 string
	Harness            string
	Level              string
	QuickRuns          int
	QuickBudgetS       int
	ThoroughRuns       int
	ThoroughBudgetS    int
	OnePerProcess      bool
	Extra              string // a second harness that also serves this property (gets a quarter of the workers)
	ExtraOnePerProcess bool   // the second harness needs one OS process per run
	Enumerate          bool   // exhaustive walk of the decision tree instead of seeded sampling
	EnumWorkers        int
	WatchdogSlackS     int
	DetSeedsQuick      int
	DetSeedsThorough   int
	Rule               string
	Real               []string
	Stub               []string
	Assumptions        []string
}

var commonAssumptions = []string{
	"the instrumented scratch copy (simrewrite rules R1-R4) behaves like /repo: yields are inserted only at synchronisation operations, sync is replaced by a scheduler-aware implementation with the same semantics",
	"Go 1.26.8 testing/synctest fake clock and quiescence detection are correct",
	"interleavings are explored at the granularity of synchronisation operations (plus R4 race points); data races below that granularity are out of reach",
	"seeded sampling, not enumeration: a clean batch is evidence, not proof",
}

var props = map[string]*propCfg{
	"C19": {
		Harness: "hev", Level: "exploration",
		QuickRuns: 4000, QuickBudgetS: 90, ThoroughRuns: 400000, ThoroughBudgetS: 1200,
		WatchdogSlackS: 120, DetSeedsQuick: 20, DetSeedsThorough: 200,
		Rule: "one run = one seeded scenario (1-6 producers, 1-30 events each or 300-1000 for backlog runs, bursts and pauses, per-write broker latency 0 / ms / hundreds of ms / 2-12 s stall, Close after a drawn pause) under one seeded schedule of the real batching loop, writing loop, FifoBuffer and producers; non-trivial = more than one event accepted; distinct = distinct (scenario, interleaving hash) pairs",
		Real: []string{"common/event.KafkaWriter (WriteEvent, batchingLoop, writingLoop, Close, key derivation, protobuf encoding)", "common/event.FifoBuffer"},
		Stub: []string{"Kafka broker: injected write function with drawn latency (hook NewWriterForVerif)", "monitoring.Send (monitoring not running: no-op)"},
		Assumptions: append([]string{
			"the broker accepts every batch (write errors are logged and dropped by the shipped write function; not part of the property)",
			"events are published before Close is called (publishing after Close is outside the property)",
		}, commonAssumptions...),
	},
	"C12": {
		Harness: "hcmdq", Level: "exploration",
		QuickRuns: 3000, QuickBudgetS: 90, ThoroughRuns: 300000, ThoroughBudgetS: 1200,
		WatchdogSlackS: 120, DetSeedsQuick: 20, DetSeedsThorough: 200,
		Rule: "one run = 1-4 commands with 0-5 targets each (overlapping target sets, timeouts 1/5/90/120 s) enqueued by 1-3 concurrent clients on the real CommandQueue+Servent; per (command,target) a behaviour from {reply, error reply, send failure, silence, duplicate, late, foreign id, id of another command, wrong sender} and a delay are drawn; replies are delivered by independent goroutines in schedule-decided order; non-trivial = at least one command with a target; distinct = distinct (scenario, interleaving); the send function takes 0/2/40 ms (the message is on its way half way through) and a quarter of the targets answer within 0-2 ms, so answers overtake the return of the send call",
		Real: []string{"core/controlcommands: CommandQueue (Enqueue, Start loop, commit), Servent (RunCommand, ProcessResponse), MakeSingleTarget, consolidateResponses, MesosCommandMultiResponse"},
		Stub: []string{"send function (injected SendCommandFunc, the code's own seam)", "executors: replies drawn from the fault stream"},
		Assumptions: append([]string{
			"replies scheduled within the last 10% before the timeout are not generated (the oracle does not decide races to the millisecond)",
			"one queue per servent, as in the core (schedulerstate.go)",
		}, commonAssumptions...),
	},
	"C11": {
		Harness: "htree", Level: "exploration",
		QuickRuns: 4000, QuickBudgetS: 90, ThoroughRuns: 400000, ThoroughBudgetS: 1200,
		WatchdogSlackS: 120, DetSeedsQuick: 20, DetSeedsThorough: 200,
		Rule: "one run = a generated role tree (depth <= 4, fan-out 1-4, aggregator/include/task/call, critical flags) attached to a real ParentAdapter, 1-3 rounds of generated state/status updates applied by 1-4 concurrent updaters (each leaf owned by one updater) under a seeded schedule; after each round every node is compared with a reference fold written from the statement; non-trivial = more than one update; distinct = distinct (scenario, interleaving)",
		Real: []string{"core/workflow: aggregatorRole, includeRole, taskRole, callRole update paths, SafeState/SafeStatus merge and aggregate, ParentAdapter fan-out", "core/task/sm State.X, core/task Status.X"},
		Stub: []string{"event writer (DummyWriter, Kafka disabled)", "roles are constructed programmatically (hook constructors) instead of being loaded from a template"},
		Assumptions: append([]string{
			"every leaf receives a status during the first round (as deployment does); the statement does not define the fold over never-reported (UNDEFINED) statuses",
			"each leaf is updated by one goroutine at a time (updates to different tasks are concurrent)",
		}, commonAssumptions...),
	},
	"C16": {
		Harness: "hdev", Level: "fault_enumeration", Enumerate: true, EnumWorkers: 6,
		QuickRuns: 50000000, QuickBudgetS: 120, ThoroughRuns: 50000000, ThoroughBudgetS: 1200,
		WatchdogSlackS: 120, DetSeedsQuick: 10, DetSeedsThorough: 50,
		Rule: "complete depth-first enumeration of the decision tree: transition (CONFIGURE, START, STOP, RESET, EXIT from STANDBY, EXIT from CONFIGURED) x control mode (FairMQ, direct) x real device state at the time of the request (the believed one or another stable state) x outcome of every device step issued (done, refused in place, ends in ERROR, request lost, reply lost after the step was done, wrong event echoed, trigger not EXECUTOR); one leaf = one execution of the real Transitioner.Commit + RpcClient.doTransition; non-trivial = at least one device step; distinct = distinct leaves",
		Real: []string{"executor/executorcmd/transitioner: FairMQ.Commit/doConfigure/doReset, Direct.Commit, state maps", "executor/executorcmd.RpcClient.doTransition (reply acceptance rule)"},
		Stub: []string{"the device: reference FairMQ state machine (stable states, from the FairMQ documentation) / O2 state machine for direct control, implementing pb.OccClient (hook NewClientForVerif)"},
		Assumptions: append([]string{
			"a device refuses (ok=false, state unchanged) an event that is not valid in its current state",
			"RESET DEVICE is accepted from INITIALIZED, BOUND and DEVICE READY only; INIT TASK from DEVICE READY only (FairMQ state machine)",
			"the rollback clause is asserted when exactly one step was refused in place at an intermediate state and every other step succeeded",
		}, commonAssumptions...),
	},
	"C07": {
		Harness: "hrn", Extra: "henv", Level: "exploration",
		QuickRuns: 3000, QuickBudgetS: 90, ThoroughRuns: 300000, ThoroughBudgetS: 1200,
		WatchdogSlackS: 120, DetSeedsQuick: 20, DetSeedsThorough: 200,
		Rule: "one run = 1-4 cores (own ConsulSource each) with 1-3 concurrent callers doing 1-4 NewRunNumber calls each on one simulated Consul (counter absent / 41 / 500000), 0-2 foreign writers that atomically raise or rewrite the counter, per-request faults (500, connection error, response lost after apply, slow) at 0/5/20 %, a core dying at a drawn request before or after it was applied and being restarted; every KV request is two scheduling points; non-trivial = at least two successful calls; distinct = distinct (scenario, interleaving)",
		Real: []string{"apricot/local.Service.NewRunNumber", "configuration/cfgbackend.ConsulSource.GetNextUInt32", "github.com/hashicorp/consul/api KV client (request building, response parsing)", "net/http client above the transport"},
		Stub: []string{"Consul server: in-memory KV store as http.RoundTripper (GET/PUT/cas/consistent, ModifyIndex, X-Consul-Index)", "START_ACTIVITY integration is covered by the environment harness, not here"},
		Assumptions: append([]string{
			"foreign writers only ever raise the counter or rewrite the same value, atomically (anything else makes uniqueness impossible by construction)",
			"consistent reads are linearizable and cas is atomic in the simulated Consul, as documented for Consul",
			"linearizability is decided by porcupine against a fetch-and-increase register (gaps allowed); Unknown (timeout) is counted, never reported",
		}, commonAssumptions...),
	},
	"C01": {
		Harness: "henv", Level: "exploration",
		QuickRuns: 4000, QuickBudgetS: 100, ThoroughRuns: 300000, ThoroughBudgetS: 1500,
		WatchdogSlackS: 240, DetSeedsQuick: 6, DetSeedsThorough: 60,
		Rule:        "one run = 1-3 concurrent clients issuing 3-12 requests (mostly the next legal event, 25% any event) on one real Environment, injected task-transition outcomes (fail 1/6, delays 0/20 ms/3 s), probe hooks at every moment plus 0-8 drawn hooks (weights -200..200, await same/later/never, critical, failing, delays); oracles: mutual exclusion of transition brackets, reference FSM over the serialisation order, illegal requests execute nothing, only documented states visible, every request returns; non-trivial = more than one request; distinct = distinct (scenario, interleaving); every call refused without a transition of its own between invocation and return must be illegal in a state the environment was left in meanwhile (requests wait for their turn)",
		Real:        []string{"core/environment.Environment: FSM callbacks, TryTransition, handleHooks, hook weights/await bookkeeping, run number and timestamp handling", "core/workflow call roles, callable.Call (Start/Await/Cancel, template execution of the call)", "core/integration plugin registry", "looplab/fsm (instrumented copy)", "apricot NewRunNumber over the real Consul client"},
		Stub:        []string{"task transition body (injected Transition, verif hook)", "integration plugin: probe plugin registered through the public RegisterPlugin API", "Consul: simconsul", "event writers: capturing writers (verif hook)", "callers follow the API rule (GO_ERROR after a failed request, forced ERROR if refused) as core/server.go does"},
		Assumptions: append([]string{"teardown and the API-level paths (ControlEnvironment, DestroyEnvironment) are exercised by the whole-core harness, not here", "hook tasks are not generated here (calls only)"}, commonAssumptions...),
	},
	"C08": {
		Harness: "henv", Level: "exploration",
		QuickRuns: 4000, QuickBudgetS: 100, ThoroughRuns: 300000, ThoroughBudgetS: 1500,
		WatchdogSlackS: 240, DetSeedsQuick: 6, DetSeedsThorough: 60,
		Rule:        "same workload as C01; oracles: hook starts matched one-to-one with trigger points of the reference, never before the trigger moment, ascending weights, awaited calls returned before anything later starts, equal-weight hooks started together (probes of one trigger expression block until all have started), calls pending at the end = calls whose await point was not reached; non-trivial = more than one request; distinct = distinct (scenario, interleaving)",
		Real:        []string{"core/environment.Environment: FSM callbacks, TryTransition, handleHooks, hook weights/await bookkeeping, run number and timestamp handling", "core/workflow call roles, callable.Call (Start/Await/Cancel, template execution of the call)", "core/integration plugin registry", "looplab/fsm (instrumented copy)", "apricot NewRunNumber over the real Consul client"},
		Stub:        []string{"task transition body (injected Transition, verif hook)", "integration plugin: probe plugin registered through the public RegisterPlugin API", "Consul: simconsul", "event writers: capturing writers (verif hook)", "callers follow the API rule (GO_ERROR after a failed request, forced ERROR if refused) as core/server.go does"},
		Assumptions: append([]string{"teardown and the API-level paths (ControlEnvironment, DestroyEnvironment) are exercised by the whole-core harness, not here", "hook tasks are not generated here (calls only)"}, commonAssumptions...),
	},
	"C09": {
		Harness: "henv", Level: "exploration",
		QuickRuns: 4000, QuickBudgetS: 100, ThoroughRuns: 300000, ThoroughBudgetS: 1500,
		WatchdogSlackS: 240, DetSeedsQuick: 6, DetSeedsThorough: 60,
		Rule:        "same workload as C01 with failing hooks (critical or not, several at once); oracles: outcome and resulting state of each transition against the reference (before_/leave_ critical failure cancels, enter_/after_ reports only), no hook or task transition after a cancelling failure, error names the failure, no concurrent map write (R4 write windows), no hang; non-trivial = more than one request; distinct = distinct (scenario, interleaving)",
		Real:        []string{"core/environment.Environment: FSM callbacks, TryTransition, handleHooks, hook weights/await bookkeeping, run number and timestamp handling", "core/workflow call roles, callable.Call (Start/Await/Cancel, template execution of the call)", "core/integration plugin registry", "looplab/fsm (instrumented copy)", "apricot NewRunNumber over the real Consul client"},
		Stub:        []string{"task transition body (injected Transition, verif hook)", "integration plugin: probe plugin registered through the public RegisterPlugin API", "Consul: simconsul", "event writers: capturing writers (verif hook)", "callers follow the API rule (GO_ERROR after a failed request, forced ERROR if refused) as core/server.go does"},
		Assumptions: append([]string{"teardown and the API-level paths (ControlEnvironment, DestroyEnvironment) are exercised by the whole-core harness, not here", "hook tasks are not generated here (calls only)"}, commonAssumptions...),
	},
	"C10": {
		Harness: "henv", Extra: "hcore", ExtraOnePerProcess: true, Level: "exploration",
		QuickRuns: 4000, QuickBudgetS: 100, ThoroughRuns: 300000, ThoroughBudgetS: 1500,
		WatchdogSlackS: 240, DetSeedsQuick: 6, DetSeedsThorough: 60,
		Rule:        "every fourth worker runs the whole-core harness instead (one process per run, the C02 scenario with hook tasks): there the real StartActivity / StopActivity / GoError transition bodies and the teardown run, and the published run events (one per timestamp set) must show exactly two end-of-run events per run however it ends; the other workers: same workload as C01; probes snapshot run_number and the four run timestamps from their variable stack; oracles: run number absent at negative-weight before_START_ACTIVITY, present and constant until the end of the STOP_ACTIVITY / GO_ERROR transition, timestamps set at most once and ordered, previous run's timestamps not visible at the start of the next, end timestamps set however the run ended, number gone after the run, end timestamps unchanged between two runs (a START_ACTIVITY whose run number allocation is made to fail - Consul down or CAS refused - begins no run); non-trivial = more than one request; distinct = distinct (scenario, interleaving); in a quarter of the second harness's runs another client issues a forced DestroyEnvironment while START_ACTIVITY is in flight",
		Real:        []string{"core/environment.Environment: FSM callbacks, TryTransition, handleHooks, hook weights/await bookkeeping, run number and timestamp handling", "core/workflow call roles, callable.Call (Start/Await/Cancel, template execution of the call)", "core/integration plugin registry", "looplab/fsm (instrumented copy)", "apricot NewRunNumber over the real Consul client"},
		Stub:        []string{"task transition body (injected Transition, verif hook)", "integration plugin: probe plugin registered through the public RegisterPlugin API", "Consul: simconsul", "event writers: capturing writers (verif hook)", "callers follow the API rule (GO_ERROR after a failed request, forced ERROR if refused) as core/server.go does"},
		Assumptions: append([]string{"teardown and the API-level paths (ControlEnvironment, DestroyEnvironment) are exercised by the whole-core harness, not here", "hook tasks are not generated here (calls only)"}, commonAssumptions...),
	},
	"C02": {
		Harness: "hcore", Level: "exploration", OnePerProcess: true,
		QuickRuns: 6000, QuickBudgetS: 200, ThoroughRuns: 200000, ThoroughBudgetS: 1800,
		WatchdogSlackS: 120, DetSeedsQuick: 0, DetSeedsThorough: 0,
		Rule:        "one run = one OS process booting the whole core in a bubble: 1-3 agents, a generated workflow of 0-4 tasks (critical or not, direct/FairMQ, each with a drawn start behaviour ok/late/fails/never and a drawn outcome ok/error-stay/error-state/silent/undeliverable/dies per CONFIGURE/START/STOP/RESET), NewEnvironment then 1-6 ControlEnvironment requests then DestroyEnvironment, drawn delivery latencies; oracle: each request succeeds iff every critical active task acknowledged (reference computed from the drawn outcomes), destination never reported on failure, environment in ERROR after a failure, error returned, every request returns; non-trivial = at least one task; distinct = distinct (scenario, interleaving); in a third of the runs MESSAGE calls take 0/30/80 ms and the simulated master forwards them half way through, so a quick executor answers before the call returns",
		Real:        []string{"core.RpcServer methods (NewEnvironment, ControlEnvironment, DestroyEnvironment, GetEnvironments, GetTasks, CleanupTasks)", "core/environment: Manager (create, teardown, event loop), Environment FSM, transition_*.go bodies", "core/task: Manager (acquire/configure/transition/release/kill, status handling), scheduler event handlers (offers, updates, messages, failure, reconciliation), roster, matching", "core/controlcommands", "core/workflow (load from a generated local git repository, role tree, template processing)", "core/repos (local repository)", "apricot/local + cfgbackend.ConsulSource + hashicorp consul api", "mesos-go controller, event/call rules, ack handling", "looplab/fsm (instrumented copy)"},
		Stub:        []string{"Mesos master, agents, executors and tasks: simmesos behind the calls.Caller seam (verif hook SetCallerForVerif)", "Consul: simconsul (http.RoundTripper)", "Kafka: capturing event writers", "gRPC transport: RPC methods are called directly on the RpcServer object (verif hook)", "metrics HTTP server: disabled (port -1)"},
		Assumptions: append([]string{"simmesos is a model of Mesos written from the scheduler API documentation", "replay of a violation is confirmed in a fresh process; tapes of this harness are not shrunk (one run per process)", "determinism of this harness is checked by replaying every violation in a fresh process (canonical log hash must match), not by the per-seed self-test"}, commonAssumptions...),
	},
	"C03": {
		Harness: "hcore", Level: "exploration", OnePerProcess: true,
		QuickRuns: 1600, QuickBudgetS: 150, ThoroughRuns: 100000, ThoroughBudgetS: 1800,
		WatchdogSlackS: 180, DetSeedsQuick: 0, DetSeedsThorough: 0,
		Rule:        "one run = whole core in one OS process, 2-3 agents, a workflow of 1-3 tasks (critical or not) brought to CONFIGURED or RUNNING; a victim task and a failure kind (TASK_FAILED, TASK_LOST, TASK_KILLED, executor FAILURE, agent FAILURE, TASK_INTERNAL_ERROR) are drawn, injected 0-3 s later, idle or racing with a START/STOP request; the environment is polled for 150 simulated s; oracle: critical victim (or a critical task on the lost executor/agent) => ERROR reached and kept, end-of-run record published if a run was active; non-critical victim => state changes only through client requests; non-trivial = the oracle's situation really occurred; distinct = distinct (scenario, interleaving)",
		Real:        []string{"core.RpcServer methods (NewEnvironment, ControlEnvironment, DestroyEnvironment, GetEnvironments, GetTasks, CleanupTasks)", "core/environment: Manager (create, teardown, event loop), Environment FSM, transition_*.go bodies", "core/task: Manager (acquire/configure/transition/release/kill, status handling), scheduler event handlers (offers, updates, messages, failure, reconciliation), roster, matching", "core/controlcommands", "core/workflow (load from a generated local git repository, role tree, template processing)", "core/repos (local repository)", "apricot/local + cfgbackend.ConsulSource + hashicorp consul api", "mesos-go controller, event/call rules, ack handling", "looplab/fsm (instrumented copy)"},
		Stub:        []string{"Mesos master, agents, executors and tasks: simmesos behind the calls.Caller seam (verif hook SetCallerForVerif)", "Consul: simconsul (http.RoundTripper)", "Kafka: capturing event writers", "gRPC transport: RPC methods are called directly on the RpcServer object (verif hook)", "metrics HTTP server: disabled (port -1)"},
		Assumptions: append([]string{"simmesos is a model of Mesos written from the scheduler API documentation", "violations are confirmed by replaying the recorded tape in a fresh process (canonical log hash must match); tapes of this harness are not shrunk"}, commonAssumptions...),
	},
	"C04": {
		Harness: "hcore", Level: "exploration", OnePerProcess: true,
		QuickRuns: 1600, QuickBudgetS: 150, ThoroughRuns: 100000, ThoroughBudgetS: 1800,
		WatchdogSlackS: 180, DetSeedsQuick: 0, DetSeedsThorough: 0,
		Rule:        "one run = whole core, 2-3 agents each with its own detector, 1-3 workflows over overlapping hosts, 1-3 concurrent clients each creating/controlling/destroying (force, keep-tasks, allow-running drawn) 1-3 environments and calling CleanupTasks, an observer polling GetEnvironments/GetTasks/GetTask; oracles: detectors of listed environments pairwise disjoint at every observation, no KILL for a task owned by an environment nobody asked to destroy, every request returns; non-trivial = the oracle's situation really occurred; distinct = distinct (scenario, interleaving); in one run in six the core runs with reuseUnlockedTasks",
		Real:        []string{"core.RpcServer methods (NewEnvironment, ControlEnvironment, DestroyEnvironment, GetEnvironments, GetTasks, CleanupTasks)", "core/environment: Manager (create, teardown, event loop), Environment FSM, transition_*.go bodies", "core/task: Manager (acquire/configure/transition/release/kill, status handling), scheduler event handlers (offers, updates, messages, failure, reconciliation), roster, matching", "core/controlcommands", "core/workflow (load from a generated local git repository, role tree, template processing)", "core/repos (local repository)", "apricot/local + cfgbackend.ConsulSource + hashicorp consul api", "mesos-go controller, event/call rules, ack handling", "looplab/fsm (instrumented copy)"},
		Stub:        []string{"Mesos master, agents, executors and tasks: simmesos behind the calls.Caller seam (verif hook SetCallerForVerif)", "Consul: simconsul (http.RoundTripper)", "Kafka: capturing event writers", "gRPC transport: RPC methods are called directly on the RpcServer object (verif hook)", "metrics HTTP server: disabled (port -1)"},
		Assumptions: append([]string{"simmesos is a model of Mesos written from the scheduler API documentation", "violations are confirmed by replaying the recorded tape in a fresh process (canonical log hash must match); tapes of this harness are not shrunk"}, commonAssumptions...),
	},
	"C06": {
		Harness: "hcore", Level: "exploration", OnePerProcess: true,
		QuickRuns: 1600, QuickBudgetS: 150, ThoroughRuns: 100000, ThoroughBudgetS: 1800,
		WatchdogSlackS: 180, DetSeedsQuick: 0, DetSeedsThorough: 0,
		Rule:        "same multi-environment workload plus tasks that fail to start / never start / fail CONFIGURE, a template that fails to load, DESTROY hook tasks; oracles after every destroy or failed create: environment not listed, no task still owned by it, every task it owned was asked to terminate unless keep-tasks, success is not reported while still listed nor while the KILL call for one of its tasks failed and was not repeated (KILL calls fail at the HTTP level in some runs), leftovers are killed by the next CleanupTasks; non-trivial = the oracle's situation really occurred; distinct = distinct (scenario, interleaving)",
		Real:        []string{"core.RpcServer methods (NewEnvironment, ControlEnvironment, DestroyEnvironment, GetEnvironments, GetTasks, CleanupTasks)", "core/environment: Manager (create, teardown, event loop), Environment FSM, transition_*.go bodies", "core/task: Manager (acquire/configure/transition/release/kill, status handling), scheduler event handlers (offers, updates, messages, failure, reconciliation), roster, matching", "core/controlcommands", "core/workflow (load from a generated local git repository, role tree, template processing)", "core/repos (local repository)", "apricot/local + cfgbackend.ConsulSource + hashicorp consul api", "mesos-go controller, event/call rules, ack handling", "looplab/fsm (instrumented copy)"},
		Stub:        []string{"Mesos master, agents, executors and tasks: simmesos behind the calls.Caller seam (verif hook SetCallerForVerif)", "Consul: simconsul (http.RoundTripper)", "Kafka: capturing event writers", "gRPC transport: RPC methods are called directly on the RpcServer object (verif hook)", "metrics HTTP server: disabled (port -1)"},
		Assumptions: append([]string{"simmesos is a model of Mesos written from the scheduler API documentation", "violations are confirmed by replaying the recorded tape in a fresh process (canonical log hash must match); tapes of this harness are not shrunk"}, commonAssumptions...),
	},
	"C17": {
		Harness: "hexec", Level: "exploration",
		QuickRuns: 20000, QuickBudgetS: 90, ThoroughRuns: 600000, ThoroughBudgetS: 1200,
		WatchdogSlackS: 120, DetSeedsQuick: 20, DetSeedsThorough: 200,
		Rule: "one run = the real executor (event loop, handlers, basic / hook / controllable tasks, RpcClient, transitioners) on a simulated host with 1-3 tasks; per task a drawn process-group script (main process, optional wrapping shell, optional forked children; lifetime, exit code, TERM/INT dispositions incl. slow and ignoring, exec failure) and, for controllable tasks, a simulated OCC device (listen/ready delays or never, start-up state, per-transition ok/slow/too slow/fail/hang/crash, exit after DONE or not, pid reported or not); the harness plays agent and core: LAUNCH, awaited transitions, hook triggers (also after the kill), KILL, repeated KILL, KILL of an unknown task at drawn instants, START/STOP/START cycles, lock-step mode (2-3 basic tasks started and stopped together under a 150 ms agent round trip, the agent having the call half way through), children that crash by a signal, UPDATE send failures; all goroutines of executor, tasks and process behaviours under one seeded schedule and fake clock; oracles after 120 s of settling: at most one terminal status and nothing after it, a child ended by the executor's signal or walked to DONE on request is not reported FAILED, no process of a group alive 60 s after STOP (basic) / KILL, a killed task has a terminal status, no panic in executor code (recovered per goroutine, named by function and statement), event loop still serves a fresh LAUNCH; fault intensity drawn per run (1 in 3/6/12); distinct = distinct (scenario, interleaving)",
		Real: []string{"executor: eventLoop, buildEventHandler, handleLaunchEvent / handleKillEvent / handleMessageEvent, status and message plumbing (actions.go)", "executor/executable: NewTask, BasicTask, HookTask, ControllableTask (Launch, Kill, Transition, doTermIntKill, pidExists), prepareTaskCmd", "executor/executorcmd: RpcClient.doTransition, ExecutorCommand_Transition; transitioner.Direct", "core/controlcommands command and response encoding"},
		Stub: []string{"operating system: simrt/simos process table (process groups, signals, zombies, reaping) behind os/exec, syscall.Kill, os.FindProcess (rewriter rule R5)", "controlled processes and their OCC server: behaviour scripts + simulated device (OccClient) behind the dial seam (verif hook NewClientDialedForVerif)", "Mesos agent: harness (calls.Sender + event decoder; verif hook NewExecutorForVerif builds the executor state as Run does); Run's re-subscription loop is re-implemented by the harness (1 s backoff, checkpointing on)", "FairMQ transitioner not exercised here (C16 covers it): tasks are DIRECT, BASIC or HOOK"},
		Assumptions: append([]string{
			"simos models Linux semantics relevant here: kill(2) on pid / -pgid / zombies, ESRCH, os.FindProcess + Signal(0) (ErrProcessDone), exec.Cmd Start/Wait/ProcessState nil-ness (checked against the real os/exec on this machine)",
			"the core awaits the response of a transition (up to 20 s) before sending the next one to the same task; KILL and hook triggers may arrive at any time",
			"survivor and terminal-status oracles are evaluated >= 60 s after the request, far beyond the 5+4x5+1+2+3 s escalation",
		}, commonAssumptions...),
	},
	"C18": {
		Harness: "hcore", Level: "exploration", OnePerProcess: true,
		QuickRuns: 1600, QuickBudgetS: 150, ThoroughRuns: 100000, ThoroughBudgetS: 1800,
		WatchdogSlackS: 180, DetSeedsQuick: 0, DetSeedsThorough: 0,
		Rule:        "one run = whole core with an environment in a drawn phase of its life; either the core is crashed at a drawn instant (its goroutines never run again, only simconsul and simmesos survive) and a new incarnation is booted, or the subscription is dropped and re-established; oracles: restart subscribes under the stored framework id, every task Mesos still holds alive from the previous life is killed within 60 s, the new instance lists no environment; reconnect (in a third of these runs the environment was created while the slow KILL calls of its destroyed predecessor were in flight): no KILL for tasks owned by the live environment, environment state unchanged; non-trivial = the oracle's situation really occurred; distinct = distinct (scenario, interleaving)",
		Real:        []string{"core.RpcServer methods (NewEnvironment, ControlEnvironment, DestroyEnvironment, GetEnvironments, GetTasks, CleanupTasks)", "core/environment: Manager (create, teardown, event loop), Environment FSM, transition_*.go bodies", "core/task: Manager (acquire/configure/transition/release/kill, status handling), scheduler event handlers (offers, updates, messages, failure, reconciliation), roster, matching", "core/controlcommands", "core/workflow (load from a generated local git repository, role tree, template processing)", "core/repos (local repository)", "apricot/local + cfgbackend.ConsulSource + hashicorp consul api", "mesos-go controller, event/call rules, ack handling", "looplab/fsm (instrumented copy)"},
		Stub:        []string{"Mesos master, agents, executors and tasks: simmesos behind the calls.Caller seam (verif hook SetCallerForVerif)", "Consul: simconsul (http.RoundTripper)", "Kafka: capturing event writers", "gRPC transport: RPC methods are called directly on the RpcServer object (verif hook)", "metrics HTTP server: disabled (port -1)"},
		Assumptions: append([]string{"simmesos is a model of Mesos written from the scheduler API documentation", "violations are confirmed by replaying the recorded tape in a fresh process (canonical log hash must match); tapes of this harness are not shrunk"}, commonAssumptions...),
	},
	"C05": {
		Harness: "hcore", Level: "exploration", OnePerProcess: true,
		QuickRuns: 3000, QuickBudgetS: 120, ThoroughRuns: 200000, ThoroughBudgetS: 1800,
		WatchdogSlackS: 180, DetSeedsQuick: 0, DetSeedsThorough: 0,
		Rule:        "one run = whole core, 2-4 agents with drawn attributes (zone, multi-valued kind), scalar resources near and far from the demand (0.45/1.2/8 cpus, 300/4096 MB) and fragmented port ranges (among them one without any port a control port can be taken from: the task cannot be completed on that offer); one workflow with constraints at root, group, role and task-template level (same attribute redefined nearer), tasks wanting 0.1-1 cpu, 64-256 MB, optional static ports, 0-2 inbound channels; oracles at the simulated master for every ACCEPT: no launch beyond the offer (scalars summed over the launches of one ACCEPT incl. a new executor, ports inside the offer and distinct), agent satisfies all merged constraints (reference merge: nearest definition wins), template wants covered, static ranges requested verbatim, every offer used or declined, core does not crash; distinct = distinct (scenario, interleaving)",
		Real:        []string{"core.RpcServer methods (NewEnvironment, ControlEnvironment, DestroyEnvironment, GetEnvironments, GetTasks, CleanupTasks)", "core/environment: Manager (create, teardown, event loop), Environment FSM, transition_*.go bodies", "core/task: Manager (acquire/configure/transition/release/kill, status handling), scheduler event handlers (offers, updates, messages, failure, reconciliation), roster, matching", "core/controlcommands", "core/workflow (load from a generated local git repository, role tree, template processing)", "core/repos (local repository)", "apricot/local + cfgbackend.ConsulSource + hashicorp consul api", "mesos-go controller, event/call rules, ack handling", "looplab/fsm (instrumented copy)"},
		Stub:        []string{"Mesos master, agents, executors and tasks: simmesos behind the calls.Caller seam (verif hook SetCallerForVerif)", "Consul: simconsul (http.RoundTripper)", "Kafka: capturing event writers", "gRPC transport: RPC methods are called directly on the RpcServer object (verif hook)", "metrics HTTP server: disabled (port -1)"},
		Assumptions: append([]string{"simmesos validates an ACCEPT the way a Mesos master does (documented behaviour); the code's numeric port thresholds are not part of the oracle", "violations are confirmed by replay in a fresh process; tapes of this harness are not shrunk"}, commonAssumptions...),
	},
	"C13": {
		Harness: "hcore", Level: "exploration", OnePerProcess: true,
		QuickRuns: 3000, QuickBudgetS: 120, ThoroughRuns: 200000, ThoroughBudgetS: 1800,
		WatchdogSlackS: 180, DetSeedsQuick: 0, DetSeedsThorough: 0,
		Rule:        "one run = whole core, a workflow of 1-4 FairMQ tasks with 0-2 inbound (tcp/ipc, transports, global aliases) and 0-2 outbound channels each (target by role path, by alias, explicit tcp://, dangling); oracles on the CONFIGURE arguments each simulated executor receives: every inbound channel is told to bind an endpoint whose port was allocated to that task, every outbound channel gets tcp://<host of the binder>:<that port> (or the ipc path) and the inbound side's transport, explicit targets unchanged, dangling targets and clashing aliases make the configuration fail (alias-heavy mode: one task per host, equal port ranges, many claimants of one alias); in one run in six (reuseUnlockedTasks on) the environment is then destroyed keeping its tasks while the same tree under other role paths is created with a slow before_DEPLOY call, so that the newcomer claims the released tasks, and the same oracles apply to the second configuration; distinct = distinct (scenario, interleaving)",
		Real:        []string{"core.RpcServer methods (NewEnvironment, ControlEnvironment, DestroyEnvironment, GetEnvironments, GetTasks, CleanupTasks)", "core/environment: Manager (create, teardown, event loop), Environment FSM, transition_*.go bodies", "core/task: Manager (acquire/configure/transition/release/kill, status handling), scheduler event handlers (offers, updates, messages, failure, reconciliation), roster, matching", "core/controlcommands", "core/workflow (load from a generated local git repository, role tree, template processing)", "core/repos (local repository)", "apricot/local + cfgbackend.ConsulSource + hashicorp consul api", "mesos-go controller, event/call rules, ack handling", "looplab/fsm (instrumented copy)"},
		Stub:        []string{"Mesos master, agents, executors and tasks: simmesos behind the calls.Caller seam (verif hook SetCallerForVerif)", "Consul: simconsul (http.RoundTripper)", "Kafka: capturing event writers", "gRPC transport: RPC methods are called directly on the RpcServer object (verif hook)", "metrics HTTP server: disabled (port -1)"},
		Assumptions: append([]string{"simmesos validates an ACCEPT the way a Mesos master does (documented behaviour); the code's numeric port thresholds are not part of the oracle", "violations are confirmed by replay in a fresh process; tapes of this harness are not shrunk"}, commonAssumptions...),
	},
	"C15": {
		Harness: "hload", Level: "exploration",
		QuickRuns: 2400, QuickBudgetS: 100, ThoroughRuns: 300000, ThoroughBudgetS: 1500,
		WatchdogSlackS: 180, DetSeedsQuick: 10, DetSeedsThorough: 100,
		Rule:        "one run = a generated workflow template (1-3 top roles, depth <= 3, aggregators, tasks, calls, iterators over two list variables incl. an empty one, enabled = false / flag variable / expression over an iteration variable, variables referring to a root default, optionally one broken template expression) processed by the real ProcessTemplates once sequentially and 1-4 more times under drawn settings of the three concurrency switches, every load under a seeded schedule of the template goroutines (R4 race points on captured variables); oracles: loaded tree = independent reference expansion (paths in order), variables equal across loads, a reached template error fails every load; non-trivial = more than one role expected; distinct = distinct (scenario, interleaving); roles below iterators may declare an inbound channel whose global alias contains an iteration variable, and the inbound channels (own and inherited) of every role are compared with the reference",
		Real:        []string{"core/workflow: aggregatorRole/iteratorRole/taskRole/callRole ProcessTemplates, expandTemplate, copies, pruning", "configuration/template (fields, stages, expression evaluation)", "common/gera maps"},
		Stub:        []string{"repository: fake IRepo", "configuration service: apricot local over simconsul (empty)", "no sub-workflow includes"},
		Assumptions: append([]string{"the reference expansion is written from the property statement for the generated template language subset (no includes)"}, commonAssumptions...),
	},
}
