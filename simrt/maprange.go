package simrt

import (
	"fmt"
	"iter"
	"reflect"
	"sort"
)

// OrderedMap is what `range m` over a map is rewritten to (rule R6) when the key type has a
// canonical rendering: inside a simulation the entries are visited in an order derived from the
// sorted keys and a decision of the tape, so that Go's randomised map iteration cannot make two
// runs of one tape differ. Any iteration order is
// a legal order for the original program; entries deleted before they are reached are skipped and
// values are read when reached, as for a native range.
func OrderedMap[M ~map[K]V, K comparable, V any](m M) iter.Seq2[K, V] {
	return func(yield func(K, V) bool) {
		if cur.Load() == nil || len(m) < 2 {
			for k, v := range m {
				if !yield(k, v) {
					return
				}
			}
			return
		}
		type ks struct {
			k K
			s string
		}
		keys := make([]ks, 0, len(m))
		for k := range m {
			keys = append(keys, ks{k, keyString(k)})
		}
		sort.Slice(keys, func(i, j int) bool { return keys[i].s < keys[j].s })
		// Which of the legal orders? The runtime would pick a random start; here the schedule
		// stream of the tape picks a rotation of the sorted order and its direction (0 = sorted),
		// so that code whose outcome depends on the iteration order is explored, replayably.
		if s := cur.Load(); s != nil && !s.cfg.FixedStrategy && !s.stopFlag.Load() && s.lookup(false) != nil {
			n := len(keys)
			c := s.Choose(Schedule, 2*n, "map-order")
			rot, rev := c%n, c >= n
			if rot != 0 || rev {
				re := make([]ks, 0, n)
				for i := 0; i < n; i++ {
					j := (rot + i) % n
					if rev {
						j = ((rot-i)%n + n) % n
					}
					re = append(re, keys[j])
				}
				keys = re
			}
		}
		for _, e := range keys {
			v, ok := m[e.k]
			if !ok {
				continue
			}
			if !yield(e.k, v) {
				return
			}
		}
	}
}

// keyString renders a map key canonically. Pointer (and interface-holding-pointer) keys are
// rendered through their pointee: objects of the code under test carry deterministic names and
// ids in their leading fields, which decides the order before any address is compared.
func keyString(k any) (s string) {
	defer func() {
		if recover() != nil {
			s = fmt.Sprintf("%v", k)
		}
	}()
	v := reflect.ValueOf(k)
	for v.IsValid() && (v.Kind() == reflect.Pointer || v.Kind() == reflect.Interface) && !v.IsNil() {
		v = v.Elem()
	}
	if v.IsValid() && v.CanInterface() {
		return fmt.Sprintf("%T:%v", k, v.Interface())
	}
	return fmt.Sprintf("%v", k)
}
