package simrt

import "reflect"

// Select is a select statement whose choice among several ready communications is made by
// the simulator (rule R7 of tools/simrewrite). The Go runtime picks uniformly at random among
// ready cases; that coin cannot be seeded, so a select with two or more communication clauses
// is rewritten to: register the cases in source order (channel and send operands are evaluated
// once, in order, as the language does), poll them one by one without blocking, starting at an
// index taken from the schedule stream of the tape, and only if none is ready block in
// reflect.Select (where, since exactly one instrumented goroutine runs at a time, the first
// communication to arrive decides).
type Select struct {
	cases []selCase
	idx   int
	val   reflect.Value
	ok    bool
}

type selCase struct {
	dir  reflect.SelectDir
	ch   reflect.Value
	send reflect.Value
}

// NewSelect starts the registration of a select statement.
func NewSelect() *Select { return &Select{idx: -1} }

// Recv registers a receive clause.
func (s *Select) Recv(ch any) {
	s.cases = append(s.cases, selCase{dir: reflect.SelectRecv, ch: reflect.ValueOf(ch)})
}

// Send registers a send clause.
func (s *Select) Send(ch any, v any) {
	cv := reflect.ValueOf(ch)
	c := selCase{dir: reflect.SelectSend, ch: cv}
	if cv.IsValid() && cv.Kind() == reflect.Chan {
		et := cv.Type().Elem()
		rv := reflect.ValueOf(v)
		switch {
		case !rv.IsValid():
			rv = reflect.Zero(et)
		case rv.Type() == et:
		case rv.Type().AssignableTo(et):
			nv := reflect.New(et).Elem()
			nv.Set(rv)
			rv = nv
		default:
			rv = rv.Convert(et) // untyped constants arrive with their default type
		}
		c.send = rv
	}
	s.cases = append(s.cases, c)
}

func (c *selCase) usable() bool {
	return c.ch.IsValid() && c.ch.Kind() == reflect.Chan && !c.ch.IsNil()
}

// Run performs the select and returns the index of the clause that communicated (clauses are
// numbered in source order, the default clause not counted), or -1 for the default clause.
func (s *Select) Run(hasDefault bool) int {
	n := len(s.cases)
	start := 0
	sim := cur.Load()
	var g *G
	if sim != nil {
		g = sim.lookup(false)
	}
	if g != nil && n >= 2 && !sim.stopFlag.Load() {
		start = sim.Choose(Schedule, n, "select")
	}
	for k := 0; k < n; k++ {
		i := (start + k) % n
		c := &s.cases[i]
		if !c.usable() {
			continue
		}
		if c.dir == reflect.SelectRecv {
			v, ok := c.ch.TryRecv()
			if v.IsValid() { // a value, or the zero value of a closed channel
				s.idx, s.val, s.ok = i, v, ok
				Yield()
				return i
			}
		} else if c.ch.TrySend(c.send) {
			s.idx = i
			Yield()
			return i
		}
	}
	if hasDefault {
		Yield()
		return -1
	}
	rc := make([]reflect.SelectCase, n)
	for i := range s.cases {
		c := &s.cases[i]
		rc[i] = reflect.SelectCase{Dir: c.dir}
		if c.usable() {
			rc[i].Chan = c.ch
			if c.dir == reflect.SelectSend {
				rc[i].Send = c.send
			}
		} else if c.dir == reflect.SelectSend {
			rc[i].Dir = reflect.SelectRecv // a nil channel never communicates, whatever the direction
		}
	}
	i, v, ok := reflect.Select(rc)
	s.idx, s.val, s.ok = i, v, ok
	Yield()
	return i
}

// SelValue returns what clause i received; ch only carries the element type.
func SelValue[T any](s *Select, ch <-chan T) T {
	v, _ := SelValue2(s, ch)
	return v
}

// SelValue2 returns what clause i received and whether it was a real value (not a closed channel).
func SelValue2[T any](s *Select, ch <-chan T) (T, bool) {
	var zero T
	if !s.val.IsValid() {
		return zero, s.ok
	}
	v, _ := s.val.Interface().(T)
	return v, s.ok
}
