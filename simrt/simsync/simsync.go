// Package simsync is a drop-in replacement for the parts of package sync used by the code under
// test. Inside a simulation every acquire operation is a scheduling point of the simrt driver
// (a waiter is enabled when the lock is free, so hand-off order is a tape decision, barging
// included); outside a simulation everything delegates to package sync.
package simsync

import (
	"sync"

	"simrt"
)

type (
	Map    = sync.Map
	Pool   = sync.Pool
	Locker = sync.Locker
)

// Mutex ---------------------------------------------------------------------------------------

type Mutex struct {
	real   sync.Mutex
	locked bool
}

func (m *Mutex) Lock() {
	if simrt.Active() == nil {
		m.real.Lock()
		return
	}
	simrt.YieldCond(func() bool { return !m.locked })
	m.locked = true
}

func (m *Mutex) TryLock() bool {
	if simrt.Active() == nil {
		return m.real.TryLock()
	}
	simrt.Yield()
	if m.locked {
		return false
	}
	m.locked = true
	return true
}

func (m *Mutex) Unlock() {
	if simrt.Active() == nil {
		m.real.Unlock()
		return
	}
	if !m.locked {
		panic("sync: unlock of unlocked mutex")
	}
	m.locked = false
}

// RWMutex: writer preference as in package sync (a pending writer blocks new readers, hence a
// recursive read lock with a pending writer deadlocks, as it does for real).
type RWMutex struct {
	real     sync.RWMutex
	readers  int
	writer   bool
	pendingW int
}

func (m *RWMutex) Lock() {
	if simrt.Active() == nil {
		m.real.Lock()
		return
	}
	m.pendingW++
	simrt.YieldCond(func() bool { return !m.writer && m.readers == 0 })
	m.pendingW--
	m.writer = true
}

func (m *RWMutex) TryLock() bool {
	if simrt.Active() == nil {
		return m.real.TryLock()
	}
	simrt.Yield()
	if m.writer || m.readers > 0 {
		return false
	}
	m.writer = true
	return true
}

func (m *RWMutex) Unlock() {
	if simrt.Active() == nil {
		m.real.Unlock()
		return
	}
	if !m.writer {
		panic("sync: Unlock of unlocked RWMutex")
	}
	m.writer = false
}

func (m *RWMutex) RLock() {
	if simrt.Active() == nil {
		m.real.RLock()
		return
	}
	simrt.YieldCond(func() bool { return !m.writer && m.pendingW == 0 })
	m.readers++
}

func (m *RWMutex) TryRLock() bool {
	if simrt.Active() == nil {
		return m.real.TryRLock()
	}
	simrt.Yield()
	if m.writer || m.pendingW > 0 {
		return false
	}
	m.readers++
	return true
}

func (m *RWMutex) RUnlock() {
	if simrt.Active() == nil {
		m.real.RUnlock()
		return
	}
	if m.readers <= 0 {
		panic("sync: RUnlock of unlocked RWMutex")
	}
	m.readers--
}

type rlocker RWMutex

func (r *rlocker) Lock()   { (*RWMutex)(r).RLock() }
func (r *rlocker) Unlock() { (*RWMutex)(r).RUnlock() }

func (m *RWMutex) RLocker() Locker { return (*rlocker)(m) }

// WaitGroup -----------------------------------------------------------------------------------

type WaitGroup struct {
	real sync.WaitGroup
	n    int
}

func (w *WaitGroup) Add(d int) {
	if simrt.Active() == nil {
		w.real.Add(d)
		return
	}
	w.n += d
	if w.n < 0 {
		panic("sync: negative WaitGroup counter")
	}
}

func (w *WaitGroup) Done() { w.Add(-1) }

func (w *WaitGroup) Wait() {
	if simrt.Active() == nil {
		w.real.Wait()
		return
	}
	simrt.YieldCond(func() bool { return w.n == 0 })
}

func (w *WaitGroup) Go(f func()) {
	w.Add(1)
	simrt.Go("wg.Go", func() {
		defer w.Done()
		f()
	})
}

// Once ----------------------------------------------------------------------------------------

type Once struct {
	real sync.Once
	m    Mutex
	done bool
}

func (o *Once) Do(f func()) {
	if simrt.Active() == nil {
		if o.done {
			return
		}
		o.real.Do(func() { defer func() { o.done = true }(); f() })
		return
	}
	if o.done {
		return
	}
	o.m.Lock()
	defer o.m.Unlock()
	if !o.done {
		defer func() { o.done = true }()
		f()
	}
}

// Cond ----------------------------------------------------------------------------------------

type condWaiter struct{ signalled bool }

type Cond struct {
	L       Locker
	real    *sync.Cond
	waiters []*condWaiter
}

func NewCond(l Locker) *Cond { return &Cond{L: l} }

func (c *Cond) realCond() *sync.Cond {
	if c.real == nil {
		c.real = sync.NewCond(c.L)
	}
	return c.real
}

func (c *Cond) Wait() {
	if simrt.Active() == nil {
		c.realCond().Wait()
		return
	}
	w := &condWaiter{}
	c.waiters = append(c.waiters, w)
	c.L.Unlock()
	simrt.YieldCond(func() bool { return w.signalled })
	c.L.Lock()
}

func (c *Cond) Signal() {
	if simrt.Active() == nil {
		c.realCond().Signal()
		return
	}
	if len(c.waiters) > 0 {
		c.waiters[0].signalled = true
		c.waiters = c.waiters[1:]
	}
}

func (c *Cond) Broadcast() {
	if simrt.Active() == nil {
		c.realCond().Broadcast()
		return
	}
	for _, w := range c.waiters {
		w.signalled = true
	}
	c.waiters = nil
}

// OnceFunc / OnceValue helpers are not used by the code under test.
