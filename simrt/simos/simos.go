// Package simos is the simulated operating system under the executor: a process table with
// process groups, signals, zombies and reaping, driven by behaviour scripts the harness chooses.
// The rewriter (tools/simrewrite, rule R5) points os/exec, syscall.Kill and os.FindProcess of the
// executor packages here; nothing in this package draws from the tape or reads a real clock, all
// delays are simulated time and every delayed action is a registered simrt goroutine.
package simos

import (
	"fmt"
	"os"
	"sort"
	"sync"
	"sync/atomic"
	"syscall"
	"time"

	"simrt"
)

// Disposition of a catchable signal.
type Disposition struct {
	Ignore bool
	// Delay between delivery and death (cleanup time of the handler).
	Delay time.Duration
	// ExitCode >= 0: the handler exits with this code; < 0: default action, death by the signal.
	ExitCode int
}

// ProcSpec scripts one process of a group.
type ProcSpec struct {
	Name string
	// ExitAfter >= 0: exits on its own that long after start with ExitCode; < 0: runs for ever.
	ExitAfter time.Duration
	ExitCode  int
	// ExitSignal != 0: instead of exiting it dies from this signal on its own (a crash)
	ExitSignal syscall.Signal
	OnTerm     Disposition
	OnInt      Disposition
	// Follows >= 0: exits (FollowDelay later, with the followed process's status when
	// FollowStatus) once process #Follows of the group is gone — a shell waiting for its
	// foreground child, a helper reading a pipe.
	Follows      int
	FollowDelay  time.Duration
	FollowStatus bool
}

// Spec scripts the group started by one exec.Cmd.Start; Procs[0] is the direct child (leader).
type Spec struct {
	StartErr error
	Procs    []ProcSpec
}

// State of a process.
type State int

const (
	Running State = iota
	Zombie        // dead, not yet waited for by its parent
	Reaped
)

// Status is a wait status.
type Status struct {
	Exited   bool
	Code     int
	Signaled bool
	Signal   syscall.Signal
}

func (s Status) String() string {
	if s.Signaled {
		return "signal: " + s.Signal.String()
	}
	return fmt.Sprintf("exit status %d", s.Code)
}

// Proc is one simulated process.
type Proc struct {
	Pid, Pgid int
	Index     int // position in its Spec
	Spec      ProcSpec
	Path      string
	Args      []string
	Direct    bool // child of the executor: stays a zombie until waited for
	State     State
	Status    Status
	// Cause is "self", "follow", "ctx" or "signal" (a signal sent through Kill).
	Cause   string
	Started time.Duration
	Died    time.Duration
	dead    chan struct{}
	dying   bool
	group   *Group
	onDeath []func()
}

// Dead is closed when the process dies.
func (p *Proc) Dead() <-chan struct{} { return p.dead }

// Group is what one Start created.
type Group struct {
	Pgid    int
	Procs   []*Proc
	Tag     string // free for the harness (task id)
	outEOF  chan struct{}
	nLiving int
}

// SignalRecord is one Kill call.
type SignalRecord struct {
	At     time.Duration
	Target int
	Sig    syscall.Signal
	Err    error
}

// World is the process table.
type World struct {
	mu      sync.Mutex
	nextPid int
	procs   map[int]*Proc
	Groups  []*Group
	Signals []SignalRecord
	// SpecFor scripts a command (called by Start).
	SpecFor func(path string, args []string, env []string) *Spec
	// OnStart is called after a group started, outside the lock.
	OnStart func(g *Group)
	// SelfSignalled is set when the executor signalled pid 0 or its own group.
	SelfSignalled bool
	start         time.Time
}

var cur atomic.Pointer[World]

// Install makes w the world the rewritten code talks to.
func Install(w *World) { cur.Store(w) }

// NewWorld makes an empty process table; pids start at 1000.
func NewWorld() *World {
	return &World{nextPid: 1000, procs: map[int]*Proc{}, start: time.Now()}
}

// Current returns the installed world.
func Current() *World {
	w := cur.Load()
	if w == nil {
		panic("simos: no world installed")
	}
	return w
}

func (w *World) now() time.Duration { return time.Since(w.start) }

// OnDeath registers f to run (outside the lock, in the goroutine that caused the death) when p
// dies; runs at once if it is dead already.
func (w *World) OnDeath(p *Proc, f func()) {
	w.mu.Lock()
	if p.State != Running {
		w.mu.Unlock()
		f()
		return
	}
	p.onDeath = append(p.onDeath, f)
	w.mu.Unlock()
}

// StartGroup creates the processes of a spec. The caller is the executor (direct parent of the leader).
func (w *World) StartGroup(path string, args, env []string, setpgid bool) (*Group, error) {
	var spec *Spec
	if w.SpecFor != nil {
		spec = w.SpecFor(path, args, env)
	}
	if spec == nil {
		spec = &Spec{Procs: []ProcSpec{{Name: "default", ExitAfter: -1, Follows: -1}}}
	}
	if spec.StartErr != nil {
		return nil, spec.StartErr
	}
	w.mu.Lock()
	g := &Group{outEOF: make(chan struct{})}
	for i, ps := range spec.Procs {
		w.nextPid++
		p := &Proc{Pid: w.nextPid, Index: i, Spec: ps, Path: path, Args: args, Direct: i == 0,
			Started: w.now(), dead: make(chan struct{}), group: g}
		if i == 0 {
			g.Pgid = p.Pid
		}
		p.Pgid = g.Pgid
		if !setpgid {
			p.Pgid = 1 // the executor's own group
		}
		w.procs[p.Pid] = p
		g.Procs = append(g.Procs, p)
		g.nLiving++
	}
	w.Groups = append(w.Groups, g)
	w.mu.Unlock()
	for _, p := range g.Procs {
		if p.Spec.ExitAfter >= 0 {
			p := p
			simrt.AfterFunc(p.Spec.ExitAfter, func() {
				if p.Spec.ExitSignal != 0 {
					w.die(p, Status{Signaled: true, Signal: p.Spec.ExitSignal}, "self")
					return
				}
				w.die(p, Status{Exited: true, Code: p.Spec.ExitCode}, "self")
			})
		}
	}
	if w.OnStart != nil {
		w.OnStart(g)
	}
	return g, nil
}

// die makes p dead (idempotent) and triggers its followers.
func (w *World) die(p *Proc, st Status, cause string) {
	w.mu.Lock()
	if p.State != Running {
		w.mu.Unlock()
		return
	}
	p.Status, p.Cause, p.Died = st, cause, w.now()
	if p.Direct {
		p.State = Zombie
	} else {
		p.State = Reaped
	}
	close(p.dead)
	g := p.group
	g.nLiving--
	if g.nLiving == 0 {
		close(g.outEOF)
	}
	var followers []*Proc
	for _, q := range g.Procs {
		if q.State == Running && q.Spec.Follows == p.Index && q != p {
			followers = append(followers, q)
		}
	}
	cbs := p.onDeath
	p.onDeath = nil
	w.mu.Unlock()
	for _, q := range followers {
		q := q
		qs := Status{Exited: true, Code: q.Spec.ExitCode}
		if q.Spec.FollowStatus {
			qs = st
			if st.Signaled {
				qs = Status{Exited: true, Code: 128 + int(st.Signal)}
			}
		}
		simrt.AfterFunc(q.Spec.FollowDelay, func() { w.die(q, qs, "follow") })
	}
	for _, f := range cbs {
		f()
	}
}

// KillBy ends p with SIGKILL on behalf of something that is not a kill(2) of the executor
// (the context of exec.CommandContext expiring): cause is recorded as given.
func (w *World) KillBy(p *Proc, cause string) {
	w.die(p, Status{Signaled: true, Signal: syscall.SIGKILL}, cause)
}

// Exit lets the harness (a simulated device deciding to leave) end a process.
func (w *World) Exit(p *Proc, code int) { w.die(p, Status{Exited: true, Code: code}, "self") }

// Reap is wait(2) by the parent: the zombie disappears.
func (w *World) Reap(p *Proc) Status {
	w.mu.Lock()
	defer w.mu.Unlock()
	if p.State == Zombie {
		p.State = Reaped
	}
	return p.Status
}

func (w *World) deliver(p *Proc, sig syscall.Signal) {
	switch sig {
	case 0:
		return
	case syscall.SIGKILL:
		w.die(p, Status{Signaled: true, Signal: sig}, "signal")
		return
	}
	var d Disposition
	switch sig {
	case syscall.SIGTERM:
		d = p.Spec.OnTerm
	case syscall.SIGINT:
		d = p.Spec.OnInt
	default:
		d = Disposition{ExitCode: -1}
	}
	if d.Ignore {
		return
	}
	st := Status{Signaled: true, Signal: sig}
	if d.ExitCode >= 0 {
		st = Status{Exited: true, Code: d.ExitCode}
	}
	if d.Delay <= 0 {
		w.die(p, st, "signal")
		return
	}
	w.mu.Lock()
	already := p.dying
	p.dying = true
	w.mu.Unlock()
	if already {
		return
	}
	simrt.AfterFunc(d.Delay, func() { w.die(p, st, "signal") })
}

// Kill is kill(2) as the executor calls it.
func Kill(pid int, sig syscall.Signal) error {
	w := Current()
	err := w.kill(pid, sig)
	w.mu.Lock()
	w.Signals = append(w.Signals, SignalRecord{At: w.now(), Target: pid, Sig: sig, Err: err})
	w.mu.Unlock()
	simrt.Tracef("simos: kill(%d, %d) = %v", pid, int(sig), err)
	simrt.Yield()
	return err
}

func (w *World) kill(pid int, sig syscall.Signal) error {
	if pid == 0 || pid == -1 || pid == 1 {
		// the caller's own group, or everything it may signal: the executor kills itself
		w.mu.Lock()
		w.SelfSignalled = true
		w.mu.Unlock()
		return nil
	}
	var targets []*Proc
	w.mu.Lock()
	if pid > 0 {
		p := w.procs[pid]
		if p == nil || p.State == Reaped {
			w.mu.Unlock()
			return syscall.ESRCH
		}
		if p.State == Running {
			targets = append(targets, p)
		}
	} else {
		any := false
		for _, p := range w.procs {
			if p.Pgid == -pid && p.State != Reaped {
				any = true
				if p.State == Running {
					targets = append(targets, p)
				}
			}
		}
		if !any {
			w.mu.Unlock()
			return syscall.ESRCH
		}
	}
	w.mu.Unlock()
	sort.Slice(targets, func(i, j int) bool { return targets[i].Pid < targets[j].Pid })
	for _, p := range targets {
		w.deliver(p, sig)
	}
	return nil
}

// Process mirrors the part of os.Process the executor uses.
type Process struct {
	Pid int
	w   *World
}

// NewProcess wraps a pid (used by exec.Cmd.Start).
func NewProcess(w *World, pid int) *Process { return &Process{Pid: pid, w: w} }

// FindProcess mirrors os.FindProcess on Linux: it always succeeds.
func FindProcess(pid int) (*Process, error) {
	return &Process{Pid: pid, w: Current()}, nil
}

// Signal mirrors os.Process.Signal: a process that is gone yields os.ErrProcessDone.
func (p *Process) Signal(sig os.Signal) error {
	if p.Pid == -1 {
		return fmt.Errorf("os: process already released")
	}
	if p.Pid == 0 {
		return fmt.Errorf("os: process not initialized")
	}
	s, ok := sig.(syscall.Signal)
	if !ok {
		return fmt.Errorf("os: unsupported signal type")
	}
	err := p.w.kill(p.Pid, s)
	p.w.mu.Lock()
	p.w.Signals = append(p.w.Signals, SignalRecord{At: p.w.now(), Target: p.Pid, Sig: s, Err: err})
	p.w.mu.Unlock()
	simrt.Yield()
	if err == syscall.ESRCH {
		return os.ErrProcessDone
	}
	return err
}

// Kill mirrors os.Process.Kill.
func (p *Process) Kill() error { return p.Signal(syscall.SIGKILL) }

// Living returns the pids of the running (not dead) members of a group, sorted.
func (w *World) Living(g *Group) []int {
	w.mu.Lock()
	defer w.mu.Unlock()
	var r []int
	for _, p := range g.Procs {
		if p.State == Running {
			r = append(r, p.Pid)
		}
	}
	return r
}

// Lookup returns the process with that pid or nil.
func (w *World) Lookup(pid int) *Proc {
	w.mu.Lock()
	defer w.mu.Unlock()
	return w.procs[pid]
}

// Snapshot returns state, status and cause of p consistently.
func (w *World) Snapshot(p *Proc) (State, Status, string, time.Duration) {
	w.mu.Lock()
	defer w.mu.Unlock()
	return p.State, p.Status, p.Cause, p.Died
}

// OutEOF is closed when the last member of the group is gone (its stdout/stderr reach EOF).
func (g *Group) OutEOF() <-chan struct{} { return g.outEOF }

// ProcessState mirrors os.ProcessState. As with the real one, every method but ExitCode
// dereferences its receiver: calling Exited on a nil *ProcessState panics.
type ProcessState struct {
	pid    int
	status Status
}

// NewProcessState is used by exec.Cmd.Wait.
func NewProcessState(pid int, st Status) *ProcessState { return &ProcessState{pid: pid, status: st} }

func (p *ProcessState) Exited() bool  { return p.status.Exited }
func (p *ProcessState) Success() bool { return p.status.Exited && p.status.Code == 0 }
func (p *ProcessState) Pid() int      { return p.pid }
func (p *ProcessState) String() string {
	if p == nil {
		return "<nil>"
	}
	return p.status.String()
}

// ExitCode mirrors os.ProcessState.ExitCode: -1 for nil, or for a process ended by a signal.
func (p *ProcessState) ExitCode() int {
	if p == nil {
		return -1
	}
	if !p.status.Exited {
		return -1
	}
	return p.status.Code
}

// Sys returns the status (the executor does not use it).
func (p *ProcessState) Sys() any { return p.status }
