// Package exec mirrors the part of os/exec the executor uses, on top of simos.
package exec

import (
	"context"
	"errors"
	"io"
	"os"
	"sync"
	"syscall"

	"simrt"
	"simrt/simos"
)

// ErrNotFound mirrors os/exec.ErrNotFound.
var ErrNotFound = errors.New("executable file not found in $PATH")

// Cmd mirrors os/exec.Cmd.
type Cmd struct {
	Path         string
	Args         []string
	Env          []string
	Dir          string
	Stdin        io.Reader
	Stdout       io.Writer
	Stderr       io.Writer
	SysProcAttr  *syscall.SysProcAttr
	Process      *simos.Process
	ProcessState *simos.ProcessState

	ctx     context.Context
	proc    *simos.Proc
	group   *simos.Group
	w       *simos.World
	pipes   []*pipe
	started bool
	waited  bool
	ctxErr  error
	mu      sync.Mutex
}

// Command mirrors os/exec.Command.
func Command(name string, arg ...string) *Cmd {
	return &Cmd{Path: name, Args: append([]string{name}, arg...)}
}

// CommandContext mirrors os/exec.CommandContext.
func CommandContext(ctx context.Context, name string, arg ...string) *Cmd {
	if ctx == nil {
		panic("nil Context")
	}
	c := Command(name, arg...)
	c.ctx = ctx
	return c
}

// ExitError mirrors os/exec.ExitError.
type ExitError struct {
	*simos.ProcessState
	Stderr []byte
}

func (e *ExitError) Error() string { return e.ProcessState.String() }

type pipe struct {
	eof    <-chan struct{}
	closed chan struct{}
	once   sync.Once
}

func (p *pipe) Read(b []byte) (int, error) {
	// both may be ready: the order is fixed, not left to the runtime's coin
	select {
	case <-p.closed:
		simrt.Yield()
		return 0, os.ErrClosed
	default:
	}
	select {
	case <-p.eof:
		simrt.Yield()
		return 0, io.EOF
	default:
	}
	select {
	case <-p.closed:
		simrt.Yield()
		return 0, os.ErrClosed
	case <-p.eof:
		simrt.Yield()
		return 0, io.EOF
	}
}

func (p *pipe) Close() error {
	p.once.Do(func() { close(p.closed) })
	return nil
}

func (c *Cmd) newPipe() (io.ReadCloser, error) {
	if c.started {
		return nil, errors.New("exec: pipe after process started")
	}
	p := &pipe{closed: make(chan struct{})}
	c.pipes = append(c.pipes, p)
	return p, nil
}

// StdoutPipe mirrors os/exec: the pipe reaches EOF when every process holding it is gone and
// is closed by Wait.
func (c *Cmd) StdoutPipe() (io.ReadCloser, error) {
	if c.Stdout != nil {
		return nil, errors.New("exec: Stdout already set")
	}
	return c.newPipe()
}

// StderrPipe mirrors os/exec.
func (c *Cmd) StderrPipe() (io.ReadCloser, error) {
	if c.Stderr != nil {
		return nil, errors.New("exec: Stderr already set")
	}
	return c.newPipe()
}

// Start mirrors os/exec.Cmd.Start: on failure Process stays nil.
func (c *Cmd) Start() error {
	if c.started {
		return errors.New("exec: already started")
	}
	c.started = true
	if c.ctx != nil {
		select {
		case <-c.ctx.Done():
			return c.ctx.Err()
		default:
		}
	}
	w := simosWorld()
	setpgid := c.SysProcAttr != nil && c.SysProcAttr.Setpgid
	g, err := w.StartGroup(c.Path, c.Args, c.Env, setpgid)
	simrt.Yield()
	if err != nil {
		for _, p := range c.pipes {
			p.Close()
		}
		return err
	}
	c.w, c.group, c.proc = w, g, g.Procs[0]
	c.Process = simos.NewProcess(w, c.proc.Pid)
	for _, p := range c.pipes {
		p.eof = g.OutEOF()
	}
	if c.ctx != nil && c.ctx.Done() != nil {
		proc := c.proc
		simrt.Go("exec-ctx-watch", func() {
			select {
			case <-proc.Dead():
				return
			default:
			}
			select {
			case <-c.ctx.Done():
				simrt.Yield()
				c.mu.Lock()
				c.ctxErr = c.ctx.Err()
				c.mu.Unlock()
				w.KillBy(proc, "ctx")
				simrt.Yield()
			case <-proc.Dead():
			}
		})
	}
	return nil
}

// Wait mirrors os/exec.Cmd.Wait: it reaps the direct child only.
func (c *Cmd) Wait() error {
	if c.Process == nil {
		return errors.New("exec: not started")
	}
	if c.waited {
		return errors.New("exec: Wait was already called")
	}
	c.waited = true
	<-c.proc.Dead()
	simrt.Yield()
	st := c.w.Reap(c.proc)
	c.ProcessState = simos.NewProcessState(c.proc.Pid, st)
	for _, p := range c.pipes {
		p.Close()
	}
	c.mu.Lock()
	ctxErr := c.ctxErr
	c.mu.Unlock()
	if st.Exited && st.Code == 0 {
		return nil
	}
	if ctxErr != nil {
		return ctxErr
	}
	return &ExitError{ProcessState: c.ProcessState}
}

// Run mirrors os/exec.Cmd.Run.
func (c *Cmd) Run() error {
	if err := c.Start(); err != nil {
		return err
	}
	return c.Wait()
}

var simosWorld = simos.Current
