package simrt

import (
	"encoding/json"
	"fmt"
	"math/rand/v2"
	"sync"
)

// Stream names the three independent decision streams derived from one seed.
type Stream uint8

const (
	Workload Stream = iota
	Faults
	Schedule
)

func (s Stream) String() string { return [...]string{"W", "F", "S"}[s] }

// Decision is one tape entry.
type Decision struct {
	S Stream `json:"s"`
	N int    `json:"n"`
	K int    `json:"k"`
	L string `json:"l,omitempty"`
}

// Tape is the only source of choices of a run. In record mode it draws from three PCG streams
// seeded from one integer and remembers every draw; in replay mode it returns the recorded
// draws. Lenient replay (used while shrinking) maps an out-of-range value with `mod n` and
// answers 0 once the recording is exhausted; strict replay reports divergence.
type Tape struct {
	mu       sync.Mutex
	Seed     uint64
	rng      [3]*rand.Rand
	replay   []Decision // nil in record mode
	pos      int
	strict   bool
	Rec      []Decision
	Diverged error
	// per-stream replay: shrinking keeps streams independent so that deleting a schedule
	// decision does not shift workload decisions
	perStream  bool
	sreplay    [3][]Decision
	spos       [3]int
	KeepLabels bool
}

// NewTape returns a recording tape for seed.
func NewTape(seed uint64) *Tape {
	t := &Tape{Seed: seed, KeepLabels: true}
	for i := range t.rng {
		t.rng[i] = rand.New(rand.NewPCG(seed, 0x9e3779b97f4a7c15*uint64(i+1)))
	}
	return t
}

// ReplayTape replays rec. Streams are replayed independently (each stream has its own cursor).
func ReplayTape(seed uint64, rec []Decision, strict bool) *Tape {
	t := &Tape{Seed: seed, strict: strict, perStream: true, KeepLabels: true}
	t.replay = rec
	for _, d := range rec {
		t.sreplay[d.S] = append(t.sreplay[d.S], d)
	}
	return t
}

// Choose returns a value in [0,n).
func (t *Tape) Choose(s Stream, n int, label string) int {
	if n <= 0 {
		panic(fmt.Sprintf("simrt: Choose(%d) label=%s", n, label))
	}
	t.mu.Lock()
	defer t.mu.Unlock()
	k := 0
	if t.perStream {
		if t.spos[s] < len(t.sreplay[s]) {
			d := t.sreplay[s][t.spos[s]]
			t.spos[s]++
			if t.strict && (d.N != n || (d.L != "" && d.L != label)) {
				if t.Diverged == nil {
					t.Diverged = fmt.Errorf("replay diverged at %s[%d]: recorded n=%d label=%q, now n=%d label=%q", s, t.spos[s]-1, d.N, d.L, n, label)
				}
			}
			k = d.K
			if k >= n || k < 0 {
				k = ((k % n) + n) % n
			}
		} else if t.strict && t.Diverged == nil {
			t.Diverged = fmt.Errorf("replay diverged: stream %s exhausted at label=%q", s, label)
		}
	} else if n > 1 {
		k = t.rng[s].IntN(n)
	}
	d := Decision{S: s, N: n, K: k}
	if t.KeepLabels {
		d.L = label
	}
	t.Rec = append(t.Rec, d)
	return k
}

// Len is the number of decisions taken so far.
func (t *Tape) Len() int { t.mu.Lock(); defer t.mu.Unlock(); return len(t.Rec) }

// MarshalRec renders the recorded decisions.
func (t *Tape) MarshalRec() []byte {
	b, _ := json.Marshal(t.Rec)
	return b
}
