package simrt

import "reflect"

func mapIdentity(m any) any {
	v := reflect.ValueOf(m)
	switch v.Kind() {
	case reflect.Map, reflect.Pointer, reflect.Slice, reflect.Chan, reflect.Func, reflect.UnsafePointer:
		return v.Pointer()
	}
	return m
}
