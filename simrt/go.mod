module simrt

go 1.26.8
