// Package simrt is the runtime of the deterministic simulator: a parking scheduler that runs
// inside one testing/synctest bubble and lets exactly one instrumented goroutine execute between
// two decisions, every decision being drawn from (or replayed from) a decision tape.
//
// Instrumented code (the scratch copy of the repository produced by cmd/simrewrite, and the
// simulated peers) calls Yield/YieldCond at every synchronisation operation. Outside a
// simulation (no active Sim) every entry point is a no-op, so instrumented code behaves like
// the original.
package simrt

import (
	"fmt"
	"runtime"
	"runtime/debug"
	"sort"
	"strings"
	"sync"
	"sync/atomic"
	"testing/synctest"
	"time"
)

// G is one goroutine known to the scheduler.
type G struct {
	ID    int
	Inc   int // incarnation of the simulated process that (transitively) spawned it
	Name  string
	wake  chan struct{}
	cond  func() bool
	pc    uintptr
	entry uintptr
	// bookkeeping
	parked bool
	exited bool
}

// Stop reasons.
const (
	StopRequested = "stop"
	StopMaxSteps  = "max-steps"
	StopSimTime   = "sim-time-limit"
	StopIdle      = "idle" // nothing runnable and no timer before the idle limit
)

// Config of one simulated run.
type Config struct {
	Tape      *Tape
	MaxSteps  int           // schedule decisions; 0 = 2e6
	MaxSim    time.Duration // simulated time after Start; 0 = 24h
	IdleLimit time.Duration // driver gives up when nothing became runnable for this long (sim time); 0 = 2h
	// Invariant, if set, runs at every quiescence (no instrumented goroutine running).
	Invariant func() error
	Trace     func(string) // optional event log sink (must not draw or read real clocks)
	// FixedStrategy: do not draw a scheduling strategy (uniform choice); used when the decision
	// tree is enumerated exhaustively.
	FixedStrategy bool
	// OnPanic, if set, makes every instrumented goroutine recover a panic that reaches its top
	// frame and report it here instead of taking the test process down (id and incarnation of
	// the goroutine, the panic value, the stack). The goroutine then ends.
	OnPanic func(id, inc int, p any, stack string)
	// StartStallDen > 0: a goroutine started by the code under test (a rewritten go statement, not
	// one of the harness's own) is, with probability 1/StartStallDen (Faults stream), held back for
	// a drawn simulated delay before its body runs - a thread that is late to be scheduled. Without
	// it no simulated time can pass between a go statement and the first statement of the body.
	StartStallDen int
}

// Sim is one simulated execution.
type Sim struct {
	cfg Config

	mu      sync.Mutex // real mutex: guards the registry below
	byGoid  map[uint64]*G
	pending map[int]*G
	parked  []*G
	nextID  int
	notify  chan struct{}

	driverGoid uint64
	curInc     atomic.Int64
	deadInc    map[int]bool

	stopFlag   atomic.Bool
	stopReason string
	invErr     error

	Steps     int
	Contended int
	ilvHash   uint64
	start     time.Time
	lastG     *G

	writeWin map[any]int // R4 write windows: map identity -> goroutine id inside
	Stats    map[string]int
	statsMu  sync.Mutex

	strategy int
	victim   int
	stickyP  int
	prio     map[int]int
}

var cur atomic.Pointer[Sim]

// Active returns the running simulation or nil.
func Active() *Sim { return cur.Load() }

func goid() uint64 {
	var buf [40]byte
	n := runtime.Stack(buf[:], false)
	// "goroutine 123 ["
	var id uint64
	for i := 10; i < n; i++ {
		c := buf[i]
		if c < '0' || c > '9' {
			break
		}
		id = id*10 + uint64(c-'0')
	}
	return id
}

func callerPC(skip int) uintptr {
	var pcs [1]uintptr
	if runtime.Callers(skip+2, pcs[:]) == 0 {
		return 0
	}
	return pcs[0]
}

// SiteString renders a program counter as file:line (for logs only).
func SiteString(pc uintptr) string {
	if pc == 0 {
		return "?"
	}
	f, _ := runtime.CallersFrames([]uintptr{pc}).Next()
	file := f.File
	if i := strings.LastIndex(file, "/"); i >= 0 {
		if j := strings.LastIndex(file[:i], "/"); j >= 0 {
			file = file[j+1:]
		}
	}
	fn := f.Function
	if i := strings.LastIndex(fn, "/"); i >= 0 {
		fn = fn[i+1:]
	}
	return fmt.Sprintf("%s:%d[%s]", file, f.Line, fn)
}

// New creates a simulation; it must be called inside a synctest bubble.
func New(cfg Config) *Sim {
	if cfg.MaxSteps == 0 {
		cfg.MaxSteps = 2_000_000
	}
	if cfg.MaxSim == 0 {
		cfg.MaxSim = 24 * time.Hour
	}
	if cfg.IdleLimit == 0 {
		cfg.IdleLimit = 2 * time.Hour
	}
	if cfg.Tape == nil {
		cfg.Tape = NewTape(1)
	}
	s := &Sim{
		cfg:      cfg,
		byGoid:   map[uint64]*G{},
		pending:  map[int]*G{},
		notify:   make(chan struct{}, 1),
		deadInc:  map[int]bool{},
		writeWin: map[any]int{},
		Stats:    map[string]int{},
		prio:     map[int]int{},
	}
	return s
}

// Tape returns the decision tape of this run.
func (s *Sim) Tape() *Tape { return s.cfg.Tape }

// Count increments a named reach counter (fault fired, rare branch hit ...).
func (s *Sim) Count(name string) {
	s.statsMu.Lock()
	s.Stats[name]++
	s.statsMu.Unlock()
}

// Count on the active simulation, if any.
func Count(name string) {
	if s := cur.Load(); s != nil {
		s.Count(name)
	}
}

func (s *Sim) trace(format string, a ...any) {
	if s.cfg.Trace != nil {
		s.cfg.Trace(fmt.Sprintf(format, a...))
	}
}

// Tracef writes to the run's event log (no-op without a sink or simulation).
func Tracef(format string, a ...any) {
	if s := cur.Load(); s != nil && s.cfg.Trace != nil {
		s.cfg.Trace(fmt.Sprintf(format, a...))
	}
}

// Now is the simulated time elapsed since the run started.
func (s *Sim) Now() time.Duration { return time.Since(s.start) }

// Choose draws one decision in [0,n) on the given stream.
func (s *Sim) Choose(stream Stream, n int, label string) int {
	return s.cfg.Tape.Choose(stream, n, label)
}

// Choose on the active simulation; 0 when there is none.
func Choose(stream Stream, n int, label string) int {
	if s := cur.Load(); s != nil {
		return s.Choose(stream, n, label)
	}
	return 0
}

// Chance returns true with probability num/den (a fault-stream decision); value 0 = false.
func (s *Sim) Chance(num, den int, label string) bool {
	if num <= 0 {
		return false
	}
	// map so that tape value 0 means "no": k in [0,den); true iff k >= den-num
	k := s.cfg.Tape.Choose(Faults, den, label)
	return k >= den-num
}

// ---------------------------------------------------------------------------------------------
// goroutine registry

func (s *Sim) lookup(create bool) *G {
	id := goid()
	s.mu.Lock()
	g := s.byGoid[id]
	if g == nil && create && id != s.driverGoid {
		s.nextID++
		g = &G{ID: s.nextID, Inc: int(s.curInc.Load()), Name: "unregistered", wake: make(chan struct{}, 1)}
		s.byGoid[id] = g
		s.Stats["unregistered_goroutine"]++
	}
	s.mu.Unlock()
	return g
}

// Spawn is called by the parent right before a go statement; the returned id is handed to Enter.
func Spawn() int {
	s := cur.Load()
	if s == nil {
		return 0
	}
	return s.spawn(callerPC(1))
}

func (s *Sim) spawn(pc uintptr) int {
	inc := int(s.curInc.Load())
	if p := s.lookup(false); p != nil {
		inc = p.Inc
	}
	s.mu.Lock()
	s.nextID++
	g := &G{ID: s.nextID, Inc: inc, wake: make(chan struct{}, 1), entry: pc}
	s.pending[g.ID] = g
	s.mu.Unlock()
	return g.ID
}

// Enter is the first statement of a spawned goroutine: it binds the goroutine to its id and
// parks, so that the start of every goroutine is a scheduling point.
func Enter(id int) {
	s := cur.Load()
	if s == nil || id == 0 {
		return
	}
	gid := goid()
	s.mu.Lock()
	g := s.pending[id]
	if g == nil {
		s.mu.Unlock()
		return
	}
	delete(s.pending, id)
	s.byGoid[gid] = g
	s.mu.Unlock()
	s.park(g, nil, g.entry)
	if den := s.cfg.StartStallDen; den > 0 && g.Name == "" && s.Choose(Faults, den, "start-stall") == 0 {
		d := [...]time.Duration{2 * time.Millisecond, 60 * time.Millisecond, 700 * time.Millisecond}[s.Choose(Faults, 3, "start-stall-delay")]
		s.Count("fault.goroutine_start_stall")
		s.trace("goroutine %d held back %v before its first statement", g.ID, d)
		time.Sleep(d)
		s.park(g, nil, g.entry)
	}
}

// Exit may be deferred by spawned goroutines to keep the registry small (optional).
func Exit() {
	s := cur.Load()
	if s == nil {
		return
	}
	var pv any
	var stack string
	if s.cfg.OnPanic != nil {
		if pv = recover(); pv != nil {
			stack = string(debug.Stack())
		}
	}
	gid := goid()
	id, inc := 0, 0
	s.mu.Lock()
	if g := s.byGoid[gid]; g != nil {
		id, inc = g.ID, g.Inc
		g.exited = true
		delete(s.byGoid, gid)
	}
	s.mu.Unlock()
	if pv != nil {
		s.cfg.OnPanic(id, inc, pv, stack)
	}
}

// Go starts f as an instrumented goroutine of the current incarnation (for harness and peer code).
func (s *Sim) Go(name string, f func()) {
	id := s.spawn(callerPC(1))
	s.mu.Lock()
	s.pending[id].Name = name
	s.mu.Unlock()
	go func() {
		Enter(id)
		defer Exit()
		f()
	}()
}

// Go on the active simulation, plain go otherwise.
func Go(name string, f func()) {
	if s := cur.Load(); s != nil {
		s.Go(name, f)
		return
	}
	go f()
}

// ---------------------------------------------------------------------------------------------
// parking

func (s *Sim) park(g *G, cond func() bool, pc uintptr) {
	if s.stopFlag.Load() {
		// the run is over: never run instrumented code again
		select {}
	}
	s.mu.Lock()
	g.cond = cond
	g.pc = pc
	g.parked = true
	s.parked = append(s.parked, g)
	s.mu.Unlock()
	select {
	case s.notify <- struct{}{}:
	default:
	}
	<-g.wake
}

// Yield is a scheduling point.
func Yield() {
	s := cur.Load()
	if s == nil {
		return
	}
	g := s.lookup(true)
	if g == nil {
		return // driver goroutine
	}
	s.park(g, nil, callerPC(1))
}

// YieldCond parks the caller until cond() holds at a quiescent point and the scheduler picks it.
// cond is evaluated by the driver while no instrumented goroutine runs. When the driver itself
// calls it (harness set-up code), cond must already hold.
func YieldCond(cond func() bool) {
	s := cur.Load()
	if s == nil {
		panic("simrt: YieldCond without simulation")
	}
	g := s.lookup(true)
	if g == nil {
		if !cond() {
			panic("simrt: driver goroutine would block")
		}
		return
	}
	s.park(g, cond, callerPC(2))
}

// Sleep is time.Sleep followed by a scheduling point.
func Sleep(d time.Duration) {
	time.Sleep(d)
	Yield()
}

// AfterFunc is time.AfterFunc whose callback is a registered goroutine.
func AfterFunc(d time.Duration, f func()) *time.Timer {
	s := cur.Load()
	if s == nil {
		return time.AfterFunc(d, f)
	}
	// the id is allocated now, by the (scheduled) caller: timers that fire at the same instant
	// start their goroutines in an order the simulator does not decide
	inc := int(s.curInc.Load())
	if p := s.lookup(false); p != nil {
		inc = p.Inc
	}
	pc := callerPC(1)
	s.mu.Lock()
	s.nextID++
	id := s.nextID
	s.mu.Unlock()
	return time.AfterFunc(d, func() {
		s.mu.Lock()
		g := &G{ID: id, Inc: inc, Name: "afterfunc", wake: make(chan struct{}, 1), entry: pc}
		s.byGoid[goid()] = g
		s.mu.Unlock()
		s.park(g, nil, pc)
		defer Exit()
		f()
	})
}

// Recv is `<-ch` followed by a scheduling point.
func Recv[T any](ch <-chan T) T {
	v := <-ch
	Yield()
	return v
}

// Recv2 is `v, ok := <-ch` followed by a scheduling point.
func Recv2[T any](ch <-chan T) (T, bool) {
	v, ok := <-ch
	Yield()
	return v, ok
}

// ---------------------------------------------------------------------------------------------
// R4 write windows

// WriteWindow brackets an unsynchronised map write: it yields inside the window, and two
// goroutines inside a window on the same map at once is a concurrent map write in a real
// execution (the Go runtime would abort the process).
func WriteWindow(m any) {
	s := cur.Load()
	if s == nil {
		return
	}
	g := s.lookup(true)
	if g == nil {
		return
	}
	key := mapIdentity(m)
	s.mu.Lock()
	if other, busy := s.writeWin[key]; busy && other != g.ID {
		s.mu.Unlock()
		s.Fail(fmt.Errorf("concurrent map write: goroutines %d and %d at %s", other, g.ID, SiteString(callerPC(1))))
		return
	}
	s.writeWin[key] = g.ID
	s.mu.Unlock()
	s.park(g, nil, callerPC(1))
	s.mu.Lock()
	delete(s.writeWin, key)
	s.mu.Unlock()
}

// ---------------------------------------------------------------------------------------------
// incarnations (crash / restart)

// NewIncarnation makes subsequently spawned root goroutines belong to a fresh incarnation.
func (s *Sim) NewIncarnation() int { return int(s.curInc.Add(1)) }

// CurrentIncarnation of the calling goroutine.
func (s *Sim) CurrentIncarnation() int {
	if g := s.lookup(false); g != nil {
		return g.Inc
	}
	return int(s.curInc.Load())
}

// GoInc starts f as a goroutine of incarnation inc.
func (s *Sim) GoInc(inc int, name string, f func()) {
	id := s.spawn(callerPC(1))
	s.mu.Lock()
	s.pending[id].Name = name
	s.pending[id].Inc = inc
	s.mu.Unlock()
	go func() {
		Enter(id)
		defer Exit()
		f()
	}()
}

// Crash stops every goroutine of incarnation inc for ever: they stay parked at their last
// scheduling point.
func (s *Sim) Crash(inc int) {
	s.mu.Lock()
	s.deadInc[inc] = true
	s.mu.Unlock()
}

// IsDead reports whether the incarnation was crashed.
func (s *Sim) IsDead(inc int) bool {
	s.mu.Lock()
	defer s.mu.Unlock()
	return s.deadInc[inc]
}

// ---------------------------------------------------------------------------------------------
// driver

// Stop ends the run at the next decision.
func (s *Sim) Stop() {
	s.stopFlag.Store(true)
	select {
	case s.notify <- struct{}{}:
	default:
	}
}

// Fail records a violation found by simulator-level machinery (e.g. a write window) and stops.
func (s *Sim) Fail(err error) {
	s.mu.Lock()
	if s.invErr == nil {
		s.invErr = err
	}
	s.mu.Unlock()
	s.Stop()
}

// Result of a run.
type Result struct {
	Reason      string
	Steps       int
	Contended   int
	Interleave  uint64
	SimTime     time.Duration
	Err         error    // invariant / simulator-level failure
	Blocked     []string // goroutines parked on a false condition at the end (lock waiters)
	ParkedAtEnd int
}

// Run executes body as the first instrumented goroutine and drives the schedule until Stop,
// a limit, or an invariant failure. Must be called from the root goroutine of a bubble.
func (s *Sim) Run(body func()) Result {
	if !cur.CompareAndSwap(nil, s) {
		panic("simrt: a simulation is already active in this process")
	}
	defer cur.Store(nil)
	s.driverGoid = goid()
	s.start = time.Now()
	s.initStrategy()
	s.Go("main", body)
	reason := s.loop()
	s.stopFlag.Store(true)
	res := Result{Reason: reason, Steps: s.Steps, Contended: s.Contended, Interleave: s.ilvHash, SimTime: time.Since(s.start)}
	s.mu.Lock()
	res.Err = s.invErr
	res.ParkedAtEnd = len(s.parked)
	for _, g := range s.parked {
		if g.cond != nil && !s.deadInc[g.Inc] {
			res.Blocked = append(res.Blocked, fmt.Sprintf("g%d(%s)@%s", g.ID, g.Name, SiteString(g.pc)))
		}
	}
	s.mu.Unlock()
	return res
}

func (s *Sim) loop() string {
	idle := time.NewTimer(s.cfg.IdleLimit)
	defer idle.Stop()
	for {
		synctest.Wait()
		if s.stopFlag.Load() {
			if s.stopReason != "" {
				return s.stopReason
			}
			return StopRequested
		}
		if s.cfg.Invariant != nil {
			if err := s.cfg.Invariant(); err != nil {
				s.mu.Lock()
				if s.invErr == nil {
					s.invErr = err
				}
				s.mu.Unlock()
				return "invariant"
			}
		}
		if s.Steps >= s.cfg.MaxSteps {
			return StopMaxSteps
		}
		if time.Since(s.start) > s.cfg.MaxSim {
			return StopSimTime
		}
		s.mu.Lock()
		// enabled set, sorted by goroutine id
		var en []*G
		for _, g := range s.parked {
			if s.deadInc[g.Inc] {
				continue
			}
			if g.cond == nil || g.cond() {
				en = append(en, g)
			}
		}
		s.mu.Unlock()
		if len(en) == 0 {
			if !idle.Stop() {
				select {
				case <-idle.C:
				default:
				}
			}
			idle.Reset(s.cfg.IdleLimit)
			select {
			case <-s.notify:
			case <-idle.C:
				return StopIdle
			}
			continue
		}
		sort.Slice(en, func(i, j int) bool { return en[i].ID < en[j].ID })
		k := 0
		if len(en) > 1 {
			k = s.pick(en)
			s.Contended++
			s.ilvHash = (s.ilvHash ^ uint64(en[k].ID)*0x9e3779b97f4a7c15 ^ uint64(len(en))) * 0x100000001b3
		}
		g := en[k]
		s.Steps++
		s.mu.Lock()
		for i, p := range s.parked {
			if p == g {
				s.parked = append(s.parked[:i], s.parked[i+1:]...)
				break
			}
		}
		g.parked = false
		g.cond = nil
		s.mu.Unlock()
		s.lastG = g
		if s.cfg.Trace != nil {
			s.trace("sched step=%d t=%v run g%d/%d(%s) at %s of %d", s.Steps, time.Since(s.start), g.ID, g.Inc, g.Name, SiteString(g.pc), len(en))
		}
		g.wake <- struct{}{}
	}
}

// Starve switches to the starvation strategy with goroutine id as the victim (harness-directed
// bias; the decision to call it must itself come from the tape).
func (s *Sim) Starve(id int) { s.strategy, s.victim = 4, id }

// LastSpawnedID is the id given to the most recently created goroutine.
func (s *Sim) LastSpawnedID() int { s.mu.Lock(); defer s.mu.Unlock(); return s.nextID }

// scheduling strategies; the strategy itself is a schedule-stream decision made at start
func (s *Sim) initStrategy() {
	if s.cfg.FixedStrategy {
		return
	}
	s.strategy = s.Choose(Schedule, 5, "strategy")
	s.stickyP = 1 + s.Choose(Schedule, 9, "sticky-p")
	if s.strategy == 4 {
		s.victim = 2 + s.Choose(Schedule, 8, "victim")
	}
}

func (s *Sim) pick(en []*G) int {
	n := len(en)
	switch s.strategy {
	case 1: // sticky: keep running the goroutine that ran last, switch with probability p/10
		if s.lastG != nil {
			for i, g := range en {
				if g == s.lastG {
					if s.Choose(Schedule, 10, "sticky") >= s.stickyP {
						return i
					}
					break
				}
			}
		}
		return s.Choose(Schedule, n, "sched")
	case 2: // mostly lowest id (FIFO by creation), perturbed with probability p/10
		if s.Choose(Schedule, 10, "fifo") >= s.stickyP {
			return 0
		}
		return s.Choose(Schedule, n, "sched")
	case 3: // random priorities per goroutine (PCT flavour): highest priority runs; priorities
		// are drawn when a goroutine is first seen and occasionally redrawn
		best, bi := -1, 0
		for i, g := range en {
			p, ok := s.prio[g.ID]
			if !ok {
				p = s.Choose(Schedule, 1000, "prio")
				s.prio[g.ID] = p
			}
			if p > best {
				best, bi = p, i
			}
		}
		if s.Choose(Schedule, 20, "prio-change") == 19 {
			s.prio[en[bi].ID] = 0
		}
		return bi
	case 4: // starve one goroutine (the victim-th created): it runs only when nothing else can,
		// or with probability 1/50; the others are picked uniformly
		vi := -1
		for i, g := range en {
			if g.ID == s.victim {
				vi = i
			}
		}
		if vi < 0 {
			return s.Choose(Schedule, n, "sched")
		}
		if s.Choose(Schedule, 50, "victim-runs") == 49 {
			return vi
		}
		k := s.Choose(Schedule, n-1, "sched")
		if k >= vi {
			k++
		}
		return k
	default:
		return s.Choose(Schedule, n, "sched")
	}
}

// CurrentID is the scheduler id of the calling goroutine (0 if unknown or no simulation).
func CurrentID() int {
	s := cur.Load()
	if s == nil {
		return 0
	}
	if g := s.lookup(false); g != nil {
		return g.ID
	}
	return 0
}
